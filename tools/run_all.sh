#!/bin/sh
# runs every implemented check (quick unless a tier is given) and prints one line each
tier=${1:-quick}
cd "$(dirname "$0")/.." || exit 2
VERIF_DIR=$(pwd); export VERIF_DIR
for id in C01 C02 C03 C04 C05 C06 C07 C08 C09 C10 C11 C12 C13 C14 C15 C16 C17 C18; do
  if grep -q "\"$id\" =>" harness/src/main.rs; then
    start=$(date +%s)
    out=$(./check $id --tier $tier 2>&1); rc=$?
    echo "rc=$rc $(echo "$out" | grep -E "^$id tier" | cut -c1-170) $(echo "$out" | grep -c '^VIOLATION') viol $(( $(date +%s) - start ))s"
    echo "$out" | grep -E "^(VIOLATION|  kind|MACHINERY)" | head -6 | cut -c1-300
  fi
done
