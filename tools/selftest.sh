#!/bin/sh
# tools/selftest.sh [name-prefix]: for every patch in /verif/mutants (and every seeded change):
# apply it to /repo, make sure the pinned suite still passes (otherwise the mutant is not
# interesting), run the check of the property named by the file's prefix and expect exit 1,
# undo. Writes /verif/selftest-report.json. Do not run while anything else uses /repo.
cd /verif || exit 2
git -C /repo diff --quiet || { echo "/repo has uncommitted changes"; exit 2; }
out=/verif/selftest-report.json; tmp=$(mktemp); echo "[" > $tmp; first=1
for patch in mutants/$1*.diff seeded/$1*/patch.diff; do
  [ -f "$patch" ] || continue
  case "$patch" in mutants/*) name=$(basename $patch .diff);; *) name=seeded-$(basename $(dirname $patch));; esac
  id=$(echo "$name" | sed -E 's/^(seeded-)?(C[0-9]+).*/\2/')
  git -C /repo apply "/verif/$patch" 2>/dev/null || { echo "$name: patch does not apply"; continue; }
  suite=$(cd /repo && cargo nextest run --workspace --no-fail-fast --tool-config-file pb:/w/lib/nextest.toml --profile pb --test-threads 8 --offline 2>&1 | grep -E "Summary" | sed -E 's/.*Summary[^0-9]*\[[^]]*\] *//')
  res=$(./check $id 2>&1); rc=$?
  kinds=$(echo "$res" | grep -E "^  kind=" | sed -E 's/^  kind=([^ ]+) class=([^ ]+).*/\1@\2/' | sort -u | head -4 | tr '\n' ' ')
  git -C /repo checkout -- .
  echo "$name: suite[$suite] check $id exit=$rc $kinds"
  [ $first = 1 ] || echo "," >> $tmp; first=0
  printf '{"mutant":"%s","property":"%s","pinned_suite":"%s","check_exit":%s,"violation_kinds":"%s"}' "$name" "$id" "$suite" "$rc" "$kinds" >> $tmp
done
echo "]" >> $tmp; mv $tmp $out
git -C /verif checkout -- evidence 2>/dev/null
find /verif/replays -type f -delete 2>/dev/null
