#!/bin/sh
# tools/selftest.sh [name-prefix]: for every patch in /verif/mutants (and every seeded change):
# apply it to a scratch worktree of /repo (HEAD), make sure the pinned suite still passes there
# (otherwise the change is not interesting), rebuild a scratch copy of the harness against that
# worktree, run the check of the property named by the file's prefix and expect exit 1, undo.
# Neither /repo nor /verif/harness is touched, so this can run next to other work (vp run).
# Writes selftest-report.json into the directory it was started from (cwd must be a /verif tree).
# SELFTEST_ONLY="<glob of seed directory names>" restricts the run to those seeded changes (e.g.
# "C??g"); the report is then merged into the existing one (entries of the same name replaced).
here=$(pwd)
[ -f "$here/tools/selftest.sh" ] || { echo "start me from the root of a /verif tree"; exit 2; }
root=${SELFTEST_ROOT:-/tmp/selftest}
export CARGO_NET_OFFLINE=true
git -C /repo worktree remove --force $root/repo 2>/dev/null; rm -rf $root; mkdir -p $root/out
git -C /repo worktree add -q --detach $root/repo HEAD || exit 2
rsync -a --exclude target "$here/harness" $root/ && ln -sfn $root/repo $root/ggrs-src
cp "$here/known_findings.json" $root/out/
out="$here/selftest-report.json"; tmp=$(mktemp); echo "[" > $tmp; first=1
if [ -n "$SELFTEST_ONLY" ]; then list=$(ls -d seeded/$SELFTEST_ONLY/patch.diff 2>/dev/null); else list=$(ls mutants/$1*.diff seeded/$1*/patch.diff 2>/dev/null); fi
for patch in $list; do
  [ -f "$patch" ] || continue
  case "$patch" in mutants/*) name=$(basename $patch .diff);; *) name=seeded-$(basename $(dirname $patch));; esac
  id=$(echo "$name" | sed -E 's/^(seeded-)?(C[0-9]+).*/\2/')
  git -C $root/repo apply "$here/$patch" 2>/dev/null || { echo "$name: patch does not apply"; continue; }
  # the suite binds fixed loopback ports: retry when another job on this machine collided with it
  for attempt in 1 2 3; do
    suite=$(cd $root/repo && CARGO_TARGET_DIR=$root/target-suite cargo nextest run --workspace --no-fail-fast --tool-config-file pb:/w/lib/nextest.toml --profile pb --test-threads 8 --offline 2>&1 | grep -E "Summary" | sed -E 's/.*Summary[^0-9]*\[[^]]*\] *//')
    case "$suite" in *failed*) ;; *) break;; esac
  done
  if (cd $root/harness && CARGO_TARGET_DIR=$root/target cargo build --release --offline >/dev/null 2>&1); then
    res=$(cd $root/harness && VERIF_DIR=$root/out $root/target/release/ggrs-mc $id 2>&1); rc=$?
  else
    res=""; rc=2
  fi
  kinds=$(echo "$res" | grep -E "^  kind=" | sed -E 's/^  kind=([^ ]+) class=([^ ]+).*/\1@\2/' | sort -u | head -4 | tr '\n' ' ')
  git -C $root/repo checkout -- .
  echo "$name: suite[$suite] check $id exit=$rc $kinds"
  [ $first = 1 ] || echo "," >> $tmp; first=0
  printf '{"mutant":"%s","property":"%s","pinned_suite":"%s","check_exit":%s,"violation_kinds":"%s"}' "$name" "$id" "$suite" "$rc" "$kinds" >> $tmp
done
echo "]" >> $tmp
if [ -n "$SELFTEST_ONLY" ] && [ -f $out ]; then
  python3 - "$tmp" "$out" <<'PY'
import json, sys
new = json.load(open(sys.argv[1])); old = json.load(open(sys.argv[2]))
names = {e["mutant"] for e in new}
merged = [e for e in old if e["mutant"] not in names] + new
merged.sort(key=lambda e: e["mutant"])
open(sys.argv[2], "w").write("[\n" + ",\n".join(json.dumps(e, separators=(",", ":")) for e in merged) + "\n]\n")
PY
  rm -f $tmp
else
  mv $tmp $out
fi
git -C /repo worktree remove --force $root/repo; rm -rf $root
