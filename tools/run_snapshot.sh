#!/bin/sh
# for `vp run --with-repo -- tools/run_snapshot.sh <tier>`: point the harness at the snapshot of
# /repo's HEAD instead of /repo itself, so that /repo can be edited while the run is going
cd "$(dirname "$0")/.." || exit 2
if [ -n "$VP_RUN_REPO" ]; then ln -sfn "$VP_RUN_REPO" ggrs-src; fi
exec tools/run_all.sh "$@"
