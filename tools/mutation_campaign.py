#!/usr/bin/env python3
"""Mechanical mutation campaign against the quick tiers (a complement to the hand-written
mutants/ and the sub-agents' seeded/ changes).

  tools/mutation_campaign.py list   [--every N]          print the selected mutants
  tools/mutation_campaign.py run    [--every N] [--offset K] [--limit M] [--out FILE]

`run` works on a scratch worktree of /repo (HEAD) under /tmp/mut and a scratch copy of the harness
whose `ggrs-src` points at that worktree, so /repo and /verif/harness are never touched. For every
selected mutant it applies the one-token change, rebuilds the harness, and runs the quick checks
cheapest first until one exits 1 (killed). Mutants that do not compile are skipped. Survivors are
then run against the pinned suite (a survivor the suite kills is of no interest); what is left is
written to the report for manual triage: equivalent, outside every property, or a blind spot.

Mutation operators (one occurrence per mutant, only in code lines of src/ outside tests, the hooks
file and cfg(feature = "verif-hooks") blocks): relational operators swapped with their neighbour
(< <=, > >=, == !=), && <-> ||, `+ 1` / `- 1` dropped, min <-> max, saturating_sub -> wrapping
variants are left alone.
"""
import argparse, json, os, re, subprocess, sys, time

REPO = "/repo"
FILES = [
    "src/input_queue.rs", "src/sync_layer.rs", "src/time_sync.rs", "src/frame_info.rs",
    "src/network/protocol.rs", "src/network/compression.rs", "src/network/messages.rs",
    "src/sessions/p2p_session.rs", "src/sessions/p2p_spectator_session.rs",
    "src/sessions/sync_test_session.rs", "src/sessions/builder.rs",
]
OPS = [
    (r" <= ", " < "), (r" < ", " <= "), (r" >= ", " > "), (r" > ", " >= "),
    (r" == ", " != "), (r" != ", " == "), (r" && ", " || "), (r" \|\| ", " && "),
    (r" \+ 1\b", ""), (r" - 1\b", ""), (r"\bmin\(", "max("), (r"\bmax\(", "min("),
]
# extended operator set (--ops ext): negation dropped, boolean literals flipped, numeric literals
# bumped, and whole single-line statements deleted (assignments to fields and bare method calls)
OPS_EXT = [
    (r"\bif !", "if "), (r"&& !", "&& "), (r"\btrue\b", "false"), (r"\bfalse\b", "true"),
    (r"\b([2-9]|[1-9][0-9]+)\b(?![.\w])", "LIT+1"),
    (r"^\s*(self\.)?[a-z_][a-z_0-9.]*(\[[^\]]*\])?(\.[a-z_][a-z_0-9]*)* (=|\+=|-=) [^;{}]*;\s*$", "DELETE"),
    (r"^\s*(self\.)?[a-z_][a-z_0-9.]*\.[a-z_][a-z_0-9]*\([^;{}]*\);\s*$", "DELETE"),
]
ORDER = ["C13", "C16", "C14", "C18", "C15", "C10", "C07", "C06", "C17", "C11", "C12", "C08", "C09", "C05", "C04", "C01", "C03", "C02"]


def code_lines(path, root=REPO):
    """(line number, text) of mutable code lines: not comments, not tests, not hook code."""
    out = []
    lines = open(os.path.join(root, path)).read().split("\n")
    in_tests = False
    skip_block = 0  # brace depth of a cfg(feature="verif-hooks") item being skipped
    pending_cfg = False
    depth_at_skip = None
    depth = 0
    for i, l in enumerate(lines):
        s = l.strip()
        if re.match(r"#\[cfg\(test\)\]", s):
            in_tests = True
        if in_tests:
            continue
        if 'cfg(feature = "verif-hooks")' in s and "not(" not in s:
            pending_cfg = True
            continue
        opens, closes = l.count("{"), l.count("}")
        if pending_cfg:
            # skip the item that follows (one line, or a braced block)
            if opens > closes:
                depth_at_skip = depth
                depth += opens - closes
                pending_cfg = False
                skip_block = 1
                continue
            if s and not s.startswith("#["):
                pending_cfg = False
            depth += opens - closes
            continue
        depth += opens - closes
        if skip_block:
            if depth <= depth_at_skip:
                skip_block = 0
            continue
        if not s or s.startswith("//") or s.startswith("#[") or s.startswith("use ") or "trace!" in s or "warn!" in s or "assert" in s:
            continue
        if re.search(r"\b(fn|impl|struct|enum|trait|type|where)\b", s) and not s.startswith("if "):
            continue
        code = l.split("//")[0]
        out.append((i + 1, code))
    return out


def mutants(root=REPO, ops=None):
    ms = []
    ops = ops or OPS
    for f in FILES:
        for (ln, code) in code_lines(f, root):
            for (pat, rep) in ops:
                for m in re.finditer(pat, code):
                    if rep == "DELETE":
                        if re.match(r"\s*(let|return|break|continue)\b", code):
                            continue
                        ms.append({"file": f, "line": ln, "col": 0, "old": code, "new": "", "text": code.strip()})
                        continue
                    if rep == "LIT+1":
                        if re.match(r"\s*(const|static)\b", code) is None and not re.search(r"(<|>|==|!=|\+|-|\*|%|/) *$", code[: m.start()]):
                            continue
                        ms.append({"file": f, "line": ln, "col": m.start(), "old": m.group(0), "new": str(int(m.group(0)) + 1), "text": code.strip()})
                        continue
                    # generic brackets are not comparisons
                    if pat in (r" < ", r" > ") and not re.search(r"\b(if|while|assert|return|&&|\|\|)\b|&&|\|\|", code):
                        continue
                    ms.append({"file": f, "line": ln, "col": m.start(), "old": m.group(0), "new": rep, "text": code.strip()})
    return ms


def sh(cmd, cwd=None, timeout=None, env=None):
    e = dict(os.environ)
    e["CARGO_NET_OFFLINE"] = "true"
    if env:
        e.update(env)
    try:
        p = subprocess.run(cmd, shell=True, cwd=cwd, stdout=subprocess.PIPE, stderr=subprocess.STDOUT, timeout=timeout, env=e, text=True)
        return p.returncode, p.stdout
    except subprocess.TimeoutExpired as x:
        return 124, (x.stdout or "") if isinstance(x.stdout, str) else ""


def main():
    ap = argparse.ArgumentParser()
    ap.add_argument("cmd", choices=["list", "run"])
    ap.add_argument("--every", type=int, default=9)
    ap.add_argument("--offset", type=int, default=0)
    ap.add_argument("--limit", type=int, default=10 ** 9)
    ap.add_argument("--out", default="/verif/mutation-campaign.json")
    ap.add_argument("--suite", action="store_true", help="run the pinned suite on survivors")
    ap.add_argument("--only", default="", help="only mutants of files whose path contains this")
    ap.add_argument("--root", default="/tmp/mut")
    ap.add_argument("--ops", default="std", choices=["std", "ext"])
    a = ap.parse_args()
    if a.cmd == "list":
        allm = mutants(ops=OPS_EXT if a.ops == "ext" else OPS)
        sel = [m for i, m in enumerate(allm) if i % a.every == a.offset % a.every and (not a.only or a.only in m["file"])][: a.limit]
        for m in sel:
            print(f'{m["file"]}:{m["line"]}: [{m["old"].strip()}] -> [{m["new"].strip()}]   {m["text"][:100]}')
        print(f"{len(sel)} selected of {len(allm)} candidate mutants")
        return
    root = a.root
    sh(f"git -C {REPO} worktree remove --force {root}/repo; rm -rf {root}; mkdir -p {root}")
    rc, o = sh(f"git -C {REPO} worktree add --detach {root}/repo HEAD")
    assert rc == 0, o
    sh(f"rsync -a --exclude target /verif/harness {root}/ && ln -sfn {root}/repo {root}/ggrs-src && mkdir -p {root}/out && cp /verif/known_findings.json {root}/out/")
    # the mutants are computed from the scratch worktree itself (HEAD), never from /repo's working
    # tree, which may have a seeded change applied by another job at this moment
    allm = mutants(f"{root}/repo", OPS_EXT if a.ops == "ext" else OPS)
    sel = [m for i, m in enumerate(allm) if i % a.every == a.offset % a.every and (not a.only or a.only in m["file"])][: a.limit]
    results = []
    t0 = time.time()
    for k, m in enumerate(sel):
        path = os.path.join(root, "repo", m["file"])
        lines = open(path).read().split("\n")
        orig = lines[m["line"] - 1]
        assert orig[m["col"]: m["col"] + len(m["old"])] == m["old"], (m, orig)
        lines[m["line"] - 1] = orig[: m["col"]] + m["new"] + orig[m["col"] + len(m["old"]):]
        open(path, "w").write("\n".join(lines))
        rec = dict(m)
        rc, o = sh("cargo build --release --offline", cwd=f"{root}/harness", env={"CARGO_TARGET_DIR": f"{root}/target"}, timeout=900)
        if rc != 0:
            rec["verdict"] = "does-not-compile"
        else:
            rec["verdict"] = "survived"
            for cid in ORDER:
                rc, o = sh(f"{root}/target/release/ggrs-mc {cid}", cwd=f"{root}/harness", env={"VERIF_DIR": f"{root}/out"}, timeout=600)
                if rc == 1:
                    kinds = sorted(set(re.findall(r"^  kind=(\S+)", o, re.M)))[:3]
                    rec["verdict"] = "killed"
                    rec["killed_by"] = cid
                    rec["kinds"] = kinds
                    break
                if rc not in (0, 1):
                    rec["verdict"] = "killed"
                    rec["killed_by"] = cid
                    rec["kinds"] = [f"machinery-exit-{rc}"]
                    break
            if rec["verdict"] == "survived" and a.suite:
                rc, o = sh("cargo nextest run --workspace --no-fail-fast --tool-config-file pb:/w/lib/nextest.toml --profile pb --test-threads 8 --offline 2>&1 | grep -E 'Summary|FAIL' | head -5", cwd=f"{root}/repo", env={"CARGO_TARGET_DIR": f"{root}/target-suite"}, timeout=1200)
                rec["pinned_suite"] = o.strip()[:300]
                if "failed" in o:
                    rec["verdict"] = "killed-by-pinned-suite"
        sh("git checkout -- .", cwd=f"{root}/repo")
        results.append(rec)
        print(f'[{k + 1}/{len(sel)} {time.time() - t0:.0f}s] {m["file"]}:{m["line"]} [{m["old"].strip()}]->[{m["new"].strip()}] {rec["verdict"]} {rec.get("killed_by", "")} {rec.get("kinds", "")}', flush=True)
        json.dump({"selected": len(sel), "candidates": len(allm), "every": a.every, "offset": a.offset, "results": results}, open(a.out, "w"), indent=1)
    sh(f"git -C {REPO} worktree remove --force {root}/repo; rm -rf {root}")


if __name__ == "__main__":
    main()
