#!/usr/bin/env python3
"""Regenerates /verif/MANIFEST.json from the table below (one row per claimed property)."""
import json, subprocess
ids=[json.loads(l)['id'] for l in open('/verif/properties.jsonl')]
hook_commits=subprocess.run(['git','-C','/repo','log','--format=%h %s'],capture_output=True,text=True).stdout.splitlines()
hook_commits=[l.split()[0] for l in hook_commits if 'verif-hooks' in l]
D='fault_enumeration'; M='model_checking'
claimed={
 'C01':(D,'6 C01','deviation-bounded stateless enumeration (k<=2 quick, k<=3 thorough) of packet fates and peer stalls over a configuration grid, exhaustive link-outage grids, long histories across ring wraps; inline oracle against the serial replay of the true inputs',
        'Every execution with at most k packet/tick deviations in the fault window, every outage (link, start, length<=12), for the listed topology/window/delay/sparse/predictor/program/latency grid, is run on the real sessions and judged call by call against the true inputs and the serial replay. Bounded exhaustive: nothing beyond the grid and k is claimed.'),
 'C02':(M,'6 C02','C01 space + starvation/lockstep/spectator/synctest scenario grids (stateless D(k)) + stateful exploration (visited set over full world digests) of all Input/InputAck fates on the two-peer core; shadow-cursor oracle on every request list',
        'Every request list of every explored execution is executed against a shadow cursor that knows the state the game had at every frame of the current timeline; mode S explores every loss/hold pattern of the input/ack stream to a round depth with a visited set.'),
 'C03':(D,'6 C03','same executions as C01; per-input oracle using the connection-status accessor, finality and monotonicity of confirmed_frame()',
        'Each (value,status) pair of each AdvanceFrame (first simulations and re-simulations) is compared with the truth, the last received frame and the predictor; confirmed inputs are frozen and compared on every later re-simulation.'),
 'C04':(M,'6 C04','grid over windows 0..=12 x delays x saving modes x every starvation length and start (Input-class outage), k<=1/2 further deviations, lockstep via advance_frame_with_wait, plus stateful exploration for w in {0,1,2}',
        'For every window 0..=12 one peer is starved of remote input for every length up to far beyond the window; the speculation bound, the load bound and the lockstep rules are checked on every call; mode S covers all fates for w<=2.'),
 'C05':(M,'6 C05','deviation-bounded enumeration of packet faults after synchronisation (k<=2/3), exhaustive burst-outage grids (direction set x start x length < timeout), stateful exploration (visited set) of all Input/InputAck loss/hold patterns on the two-peer core and the host<->spectator link, handshake under k faults; recovery probes judged against the fault-free advance rate',
        'From the end of every explored fault pattern a fault-free probe phase must bring every session and spectator back to advancing (no Disconnected, timeline intact). Mode S covers unbounded numbers of lost acknowledgements to a round depth.'),
 'C07':(D,'6 C07','grid enumeration: moment of death x subsets of the last packets lost x topology/window/delay/saving/timeouts (+spectator), silences of every length, explicit disconnect at every round, k<=1 extra deviation; timer reference model replayed over the actual polls and packet hand-overs; final-timeline oracle',
        'Event rounds must equal the timer model exactly (not earlier, not later, once); the survivor final timeline must be the real inputs up to the cut-off and (default, Disconnected) after it, spectators included.'),
 'C14':(M,'6 C14','word sweeps through the real encode/decode: all (reference, sequence) pairs over a small alphabet, a run-length stress family, all byte strings up to 2/3 bytes (+ reduced-alphabet 4-5 bytes) in child processes under a counting allocator',
        'Round trip compared with the reference model (the list itself); totality = no panic, no abort, peak allocation under 4x the largest legitimate expansion, for every enumerated byte string.'),
 'C06':(D,'6 C06','grids over catch-up settings x spectator schedules (stopped and polling pauses of every length crossing the 60-frame ring, slow ticking) x link outages x host-side deaths, k<=2 packet deviations; frame-by-frame equality with the host final timeline, pacing and ring-overrun oracles, differential run without spectators',
        'Every frame handed to a spectator must equal the host final timeline (values and Disconnected statuses), never beyond the host confirmation; pacing and SpectatorTooFarBehind are checked against frames_behind_host(); players must simulate identically with and without spectators.'),
 'C08':(M,'6 C08','live injection grid: every single-aspect forgery of an authentic Input (status count, start frame, enumerated payload bytes, substitutions, truncations, wrong frame sizes), every message kind under a foreign magic, unknown source address, at every round of handshake/running/after-disconnect/after-shutdown and both positions; differential oracle against the run without injection; allocation measured by a counting allocator',
        'A forged packet must cause no panic, no allocation above the bound, and leave the session behaving exactly as in the run without it (calls, events, final timelines, connection status). One known finding (malformed but authenticated packets count as liveness).'),
 'C09':(D,'6 C09','false-alarm half: k<=2 deviation enumeration and outage grids over intervals/windows/delays/saving modes with a deterministic game; detection half: grid over every divergence frame x interval with a perturbed game, checksums compared with the games real saved states',
        'No execution of the false-alarm space may contain a DesyncDetected event; every divergence must be reported by both peers before the session passes a computed deadline frame, naming a frame after the divergence and the two checksums the games really saved.'),
 'C10':(D,'6 C10','grid: moment of death x every split of the dying peer last packets between the survivor links x windows/delays/saving/timeouts (3-4 peers), slow survivor links, k<=2 deviations on the survivors link; pairwise comparison of final timelines and state hashes',
        'Survivors must not panic and must end with identical inputs/statuses for the dropped player and identical states on every frame both confirmed. Two known findings (unequal receipt panics), keyed by the receipt split and panic message.'),
 'C11':(M,'6 C11','exhaustive enumeration of all sequences of up to 2 (quick) / 3 (thorough) set_input_delay calls x values 0..=6 x local player x round of a window (same-round calls included), windows at the start and across the 128-slot ring wrap, one/two local players, spectator, three peers, stalled caller, k<=1/2 packet deviations; reference model of the delay semantics replayed over the calls actually made',
        'The owner final timeline must equal the reference model (gapless, fills repeat, drops drop), every remote peer and spectator must equal the owner on every confirmed frame, nobody freezes, nothing stays stranded in the outgoing buffer, no call panics.'),
 'C12':(M,'6 C12','stateful exploration (visited set) of every fate of every handshake packet, k<=2/3 fault enumeration at three poll cadences, forged replies at every round, silence-length grids, poll-only cadence grids, undrained queues; oracles: per-address event grammar automaton, round trips matched by the simulated network, timer reference model',
        'The event stream of every explored execution must be accepted by the grammar automaton; Running must coincide, call by call, with 5 network-matched round trips per remote; interruption/resume/disconnect rounds must equal the timer model; the undrained queue must stay <= 100.'),
 'C16':(M,'6 C16','word sweep over all sequences of builder calls (48-call alphabet, length <=3 quick / <=4 thorough) x the three start_* calls against a reference validity model, accepted sessions driven; run-time misuse calls inserted at every round of valid runs with a differential oracle',
        'Every builder call must fail exactly when the reference model of the documented rules says so, with InvalidRequest, never a panic; accepted sessions can be driven; rejected run-time calls return the documented error and leave the run identical to the run without them.'),
 'C17':(M,'6 C17','grid: scenarios x hash seeds enumerated until every iteration order of every registry map has occurred (completeness asserted and reported) x rng seeds; each run compared with the reference run (request lists, states, per-address event sequences)',
        'Under every enumerated hash-map iteration order and handshake random seed the observable behaviour of every session must be identical to the reference run.'),
 'C18':(D,'6 C18','grid of long runs (1500 / 5000 rounds) over topologies incl. all-local, silent and non-acknowledging spectators, undrained events, lossy and ack-outage backgrounds, with the buffer-size accessor read after every call; k<=1 deviation windows across ring wraps; hard bounds + plateau rule',
        'Every buffer stays under its configuration-dependent bound after every call and does not grow between the middle and the last third of the run.'),
 'C13':(M,'6 C13','grid enumeration of all builder configurations x input programs, and every (frame, simulation index) placement of a nondeterministic step; reference model of the expected verdict',
        'Every configuration of the grid is either rejected by the builder (and must be invalid) or run 60 frames; every placement of one perturbed simulation must be reported within check_distance+2 calls naming frame g+1. One known finding (first simulation never checksummed).'),
}
def check(i):
    lvl,ref,tech,text=claimed[i]
    return {"property_id":i,"quick_cmd":f"./check {i} --tier quick","thorough_cmd":f"./check {i} --tier thorough",
            "evidence_file":f"/verif/evidence/{i}.json","replay_cmd_template":f"./check {i} --replay {{path}}","engine":"ggrs-mc",
            "level_claimed":{"category":lvl,"text":text,"design_ref":"DESIGN.md section "+ref},
            "level_note":"Trusted: the harness (simulated network, game, monitor, reference models), the verif-hooks replacements of clock/rand/hash seeds (behaviour-neutral by construction), rustc. Bounds: the grids, k, depths and horizons written to the evidence file by each run.",
            "technique":tech}
m={"version":1,
 "setup_cmd":"cd /verif/harness && CARGO_NET_OFFLINE=true cargo build --release --offline",
 "hooks":{"guard":"cargo feature verif-hooks (off by default)","enable":"the harness crate depends on ggrs by path (/repo) with features=[\"verif-hooks\"]; ./check rebuilds it from /repo's working tree",
   "baseline_off_cmd":"cd /repo && (cargo nextest run --workspace --no-fail-fast --tool-config-file pb:/w/lib/nextest.toml --profile pb --test-threads 8 --offline || cargo test --workspace --no-fail-fast --offline)",
   "source_commits":hook_commits,"add_only":True},
 "engines":[{"name":"ggrs-mc","path":"/verif/harness","serves_properties":sorted(claimed),"kind_free_text":"own explorer (stateless deviation-bounded enumeration, stateful search with a visited set over world digests, grid and word sweeps) driving the real ggrs sessions closed by a simulated network, virtual clock, seeded rng and hash order"}],
 "checks":[check(i) for i in ids if i in claimed],
 "not_applicable":[{"property_id":i,"reason":"check under construction in this round (planned technique in DESIGN.md section 6); not claimed yet"} for i in ids if i not in claimed],
 "notes":"Exit codes of ./check: 0 held (KNOWN-FINDING lines allowed), 1 VIOLATION, 2 machinery failure. known_findings.json is never written at run time."}
json.dump(m,open('/verif/MANIFEST.json','w'),indent=1)
print(len(m['checks']),'checks claimed;',len(m['not_applicable']),'not claimed')
