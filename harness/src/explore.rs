//! The explorer: stateless re-execution over deviation lists.
//!  * mode D(k): every execution with at most k deviations among the offered choice points;
//!  * mode S: every option at every point, made finite by a visited set over world digests;
//!  * mode G: many scenarios, each a single deterministic execution (k = 0).
//! Work items are (scenario index, deviation list); 16 workers share one stack.
use crate::chooser::Devs;
use crate::scenario::Scenario;
use crate::world::{run_scn, ExecResult, RunOpt, Violation, Visited};
use std::collections::{HashMap, HashSet};
use std::sync::atomic::{AtomicBool, AtomicU64, Ordering};
use std::sync::{Arc, Mutex};
use std::time::{Duration, Instant};

pub type Judge<'a> = &'a (dyn Fn(&Scenario, &ExecResult, Option<&ExecResult>) -> Vec<Violation> + Sync);

#[derive(Clone)]
pub struct ExploreCfg {
    /// deviation bound; None = unbounded (requires `stateful`)
    pub k: Option<usize>,
    pub stateful: bool,
    pub threads: usize,
    pub max_execs: u64,
    pub wall: Duration,
    pub track_sizes: bool,
    pub sniff: bool,
    /// application/configuration variants added to the scenario list: every `variant_every`-th
    /// scenario is copied with the next applicable modifier of this menu (round robin), see
    /// `with_variants`. The property under test must hold under every modifier of the menu.
    pub variants: &'static [Mod],
    pub variant_every: usize,
}

/// Behaviour-preserving changes of configuration or application behaviour.
#[derive(Clone, Copy, Debug, PartialEq)]
pub enum Mod {
    /// desync detection on with this interval (deterministic games: no report may follow)
    Desync(u32),
    /// the games save their states without a checksum
    NoChecksum,
    /// the applications never drain the event queue
    Undrained,
    /// the last peer only ticks every second round
    UnevenTicks,
    /// local inputs handed over in descending handle order (1), twice with a wrong value first
    /// (2), or with a different value when a frame's input is submitted again after a stall (3)
    InputStyle(u8),
    /// the sessions run with a five-byte input type instead of `u8`
    Wide,
    /// the builder's setters are called in the reverse order
    SettersReversed,
    /// the sessions predict with PredictDefault and the players follow the sparse input program
    PredictDefault,
}

pub const CORE_MENU: &[Mod] = &[Mod::Wide, Mod::SettersReversed, Mod::Desync(1), Mod::NoChecksum, Mod::InputStyle(2), Mod::Undrained, Mod::InputStyle(3), Mod::Desync(3), Mod::UnevenTicks, Mod::InputStyle(1)];
pub const NET_MENU: &[Mod] = &[Mod::Wide, Mod::SettersReversed, Mod::PredictDefault, Mod::Desync(1), Mod::NoChecksum, Mod::InputStyle(2), Mod::InputStyle(3), Mod::Desync(3), Mod::InputStyle(1)];

fn apply_mod(s: &Scenario, m: Mod) -> Option<Scenario> {
    let mut x = s.clone();
    match m {
        Mod::Desync(iv) => {
            if s.peers.iter().any(|p| p.desync != 0) || !s.no_checksum.is_empty() {
                return None;
            }
            x.peers.iter_mut().for_each(|p| p.desync = iv);
        }
        Mod::NoChecksum => {
            if !s.no_checksum.is_empty() || s.peers.iter().any(|p| p.desync != 0) || s.diverge.is_some() {
                return None;
            }
            x.no_checksum = (0..s.peers.len()).collect();
        }
        Mod::Undrained => {
            if s.peers.iter().any(|p| !p.drain) {
                return None;
            }
            x.peers.iter_mut().for_each(|p| p.drain = false);
            x.specs.iter_mut().for_each(|p| p.drain = false);
        }
        Mod::InputStyle(st) => {
            if s.peers.iter().any(|p| p.input_style != 0) || (st == 1 && s.peers.iter().all(|p| p.locals.len() < 2)) {
                return None;
            }
            x.peers.iter_mut().for_each(|p| p.input_style = st);
        }
        Mod::PredictDefault => {
            if s.pred == crate::types::Pred::Default {
                return None;
            }
            x.pred = crate::types::Pred::Default;
            x.program = crate::types::Program::Sparse;
        }
        Mod::SettersReversed => {
            if s.peers.iter().any(|p| p.builder_order != 0) {
                return None;
            }
            x.peers.iter_mut().for_each(|p| p.builder_order = 1);
        }
        Mod::Wide => {
            if s.wide || !s.inject.is_empty() {
                return None;
            }
            x.wide = true;
        }
        Mod::UnevenTicks => {
            if s.peers.len() < 2 || s.peers.iter().any(|p| p.tick_every != 1 || p.use_wait) || !s.scripted_stalls.is_empty() {
                return None;
            }
            x.peers.last_mut().unwrap().tick_every = 2;
        }
    }
    x.name = format!("{} +{m:?}", s.name);
    Some(x)
}

/// The scenario list plus, for every `every`-th scenario, one copy under the next applicable
/// modifier of the menu.
pub fn with_variants(scns: &[Scenario], menu: &[Mod], every: usize) -> Vec<Scenario> {
    let mut out: Vec<Scenario> = scns.to_vec();
    if menu.is_empty() {
        return out;
    }
    let mut next = 0usize;
    for (i, s) in scns.iter().enumerate() {
        if i % every.max(1) != 0 {
            continue;
        }
        for t in 0..menu.len() {
            if let Some(x) = apply_mod(s, menu[(next + t) % menu.len()]) {
                out.push(x);
                next = (next + t + 1) % menu.len();
                break;
            }
        }
    }
    out
}

impl Default for ExploreCfg {
    fn default() -> Self {
        Self {
            k: Some(0),
            stateful: false,
            threads: 16,
            max_execs: u64::MAX,
            wall: Duration::from_secs(3600),
            track_sizes: false,
            sniff: false,
            variants: &[],
            variant_every: 1,
        }
    }
}

#[derive(Clone, Debug, serde::Serialize)]
pub struct Found {
    pub scenario: Scenario,
    pub devs: Devs,
    pub violation: Violation,
}

#[derive(Default, Clone, Debug, serde::Serialize)]
pub struct Counters {
    pub rollbacks: u64,
    pub max_rollback: i32,
    pub resimulated: u64,
    pub stalls: u64,
    pub predicted: u64,
    pub mispredicted_resims: u64,
    pub disconnected_inputs: u64,
    pub dropped: u64,
    pub duplicated: u64,
    pub delayed: u64,
    pub outage_dropped: u64,
    pub frames_simulated: u64,
    pub max_points: u64,
    pub panics: u64,
    pub sent: [u64; 8],
}

#[derive(Default)]
pub struct ExploreOut {
    pub executions: u64,
    pub scenarios: u64,
    pub fingerprints: HashSet<u64>,
    pub nontrivial: HashSet<u64>,
    pub found: Vec<Found>,
    pub machinery: Vec<String>,
    pub states: u64,
    pub transitions: u64,
    pub capped: Option<String>,
    pub samples: Vec<serde_json::Value>,
    pub counters: Counters,
    pub by_k: HashMap<usize, u64>,
    pub determinism_reruns: u64,
    pub wall_s: f64,
    pub found_per_key: HashMap<(&'static str, String, String), u64>,
    pub kept_per_shape: HashMap<((&'static str, String, String), String), u64>,
}

struct Shared<'a> {
    stack: Mutex<(Vec<(usize, Devs)>, usize)>,
    baselines: Vec<Mutex<Option<Arc<ExecResult>>>>,
    visited: Vec<Visited>,
    out: Mutex<ExploreOut>,
    execs: AtomicU64,
    stop: AtomicBool,
    scns: &'a [Scenario],
    cfg: &'a ExploreCfg,
    judge: Judge<'a>,
    t0: Instant,
}

fn opt_for<'a>(sh: &'a Shared, si: usize) -> RunOpt<'a> {
    RunOpt {
        visited: if sh.cfg.stateful { Some(&sh.visited[si]) } else { None },
        sniff: sh.cfg.sniff,
        track_sizes: sh.cfg.track_sizes,
        injections: Vec::new(),
    }
}

fn describe(scn: &Scenario, devs: &Devs, res: &ExecResult) -> serde_json::Value {
    let dv: Vec<String> = devs
        .iter()
        .map(|(i, a)| {
            let p = res.points.get(*i as usize);
            match p {
                Some(p) if p.kind == crate::chooser::PK_PACKET => format!(
                    "point {i} (round {}, {} {}->{}) alt {a}",
                    p.round,
                    crate::wire::KIND_NAMES[(p.tag & 0xff) as usize % 8],
                    (p.tag >> 8) & 0xff,
                    (p.tag >> 16) & 0xff
                ),
                Some(p) if p.kind == crate::chooser::PK_LINK => format!("point {i} (round {}, link group {} down)", p.round, p.tag),
                Some(p) => format!("point {i} (round {}, tick of session {}) alt {a}", p.round, p.tag),
                None => format!("point {i} alt {a}"),
            }
        })
        .collect();
    serde_json::json!({
        "scenario": scn.name,
        "deviations": dv,
        "points_offered": res.points.len(),
        "final_frames": res.nodes.iter().map(|n| n.calls.last().map(|c| c.cur).unwrap_or(-1)).collect::<Vec<_>>(),
        "rollbacks": res.nodes.iter().map(|n| n.stats.rollbacks).sum::<u64>(),
        "fingerprint": format!("{:016x}", res.fingerprint),
    })
}

fn worker(sh: &Shared) {
    loop {
        if sh.stop.load(Ordering::Relaxed) {
            return;
        }
        let item = {
            let mut g = sh.stack.lock().unwrap();
            match g.0.pop() {
                Some(it) => {
                    g.1 += 1;
                    Some(it)
                }
                None => {
                    if g.1 == 0 {
                        return;
                    }
                    None
                }
            }
        };
        let Some((si, devs)) = item else {
            std::thread::sleep(Duration::from_micros(100));
            continue;
        };
        let n = sh.execs.fetch_add(1, Ordering::Relaxed) + 1;
        if n > sh.cfg.max_execs || sh.t0.elapsed() > sh.cfg.wall {
            sh.stop.store(true, Ordering::Relaxed);
            let mut o = sh.out.lock().unwrap();
            if o.capped.is_none() {
                o.capped = Some(format!(
                    "stopped after {} executions / {:.0} s (cap: {} executions, {:.0} s)",
                    n - 1,
                    sh.t0.elapsed().as_secs_f64(),
                    sh.cfg.max_execs,
                    sh.cfg.wall.as_secs_f64()
                ));
            }
            let mut g = sh.stack.lock().unwrap();
            g.1 -= 1;
            return;
        }
        let scn = &sh.scns[si];
        let res = run_scn(scn, &devs, &opt_for(sh, si));
        // determinism self-check: the root and every 1000th execution run twice (stateless only:
        // a stateful re-run would be cut at once by its own states)
        let mut nondet: Option<String> = None;
        let mut reran = false;
        if !sh.cfg.stateful && (devs.is_empty() && si < 64 || n % 1000 == 0) {
            let again = run_scn(scn, &devs, &opt_for(sh, si));
            reran = true;
            if again.fingerprint != res.fingerprint || again.points.len() != res.points.len() {
                nondet = Some(format!(
                    "scenario {} devs {:?}: two runs of the same choice sequence differ (fingerprints {:x} / {:x}, points {} / {})",
                    scn.name,
                    devs,
                    res.fingerprint,
                    again.fingerprint,
                    res.points.len(),
                    again.points.len()
                ));
            }
        }
        let baseline: Option<Arc<ExecResult>> = if devs.is_empty() {
            None
        } else {
            sh.baselines[si].lock().unwrap().clone()
        };
        let mut viols = res.violations.clone();
        viols.extend((sh.judge)(scn, &res, baseline.as_deref()));
        // children
        let mut children: Vec<(usize, Devs)> = Vec::new();
        let first_new = devs.last().map(|d| d.0 as usize + 1).unwrap_or(0);
        let limit = res.cut.map(|c| c as usize).unwrap_or(res.points.len()).min(res.points.len());
        let may_deviate = match sh.cfg.k {
            Some(k) => devs.len() < k,
            None => true,
        };
        if may_deviate && res.divergence.is_none() {
            for i in first_new..limit {
                for alt in 1..res.points[i].n {
                    let mut d = devs.clone();
                    d.push((i as u32, alt));
                    children.push((si, d));
                }
            }
            // reverse so that the stack pops the earliest deviation first
            children.reverse();
        }
        let is_root = devs.is_empty();
        let fp = res.fingerprint;
        let nontrivial = baseline.as_ref().map(|b| b.fingerprint != fp).unwrap_or(false);
        {
            let mut o = sh.out.lock().unwrap();
            o.executions += 1;
            if reran {
                o.determinism_reruns += 1;
            }
            *o.by_k.entry(devs.len()).or_insert(0) += 1;
            o.fingerprints.insert(fp);
            if nontrivial || is_root {
                o.nontrivial.insert(fp);
            }
            o.states += res.new_states;
            o.transitions += (res.rounds_run.max(0)) as u64;
            if let Some(m) = nondet {
                o.machinery.push(m);
            }
            if let Some(d) = &res.divergence {
                o.machinery.push(format!("scenario {} devs {:?}: {d}", scn.name, devs));
            }
            let c = &mut o.counters;
            for nd in &res.nodes {
                c.rollbacks += nd.stats.rollbacks;
                c.max_rollback = c.max_rollback.max(nd.stats.max_rollback);
                c.resimulated += nd.stats.resimulated;
                c.stalls += nd.stats.stalls;
                c.predicted += nd.stats.predicted;
                c.mispredicted_resims += nd.stats.mispredicted_resims;
                c.disconnected_inputs += nd.stats.disconnected_inputs;
                c.frames_simulated += nd.sims.len() as u64;
                if nd.crashed.is_some() {
                    c.panics += 1;
                }
            }
            c.dropped += res.net.dropped;
            c.duplicated += res.net.duplicated;
            c.delayed += res.net.delayed;
            c.outage_dropped += res.net.outage_dropped;
            c.max_points = c.max_points.max(res.points.len() as u64);
            for i in 0..8 {
                c.sent[i] += res.net.sent[i];
            }
            let want_sample = o.samples.len() < 6 && (is_root && o.samples.len() < 2 || nontrivial && !devs.is_empty());
            if want_sample {
                o.samples.push(describe(scn, &devs, &res));
            }
            for v in viols {
                if v.prop == "MACHINERY" {
                    o.machinery.push(format!("scenario {}: {} {}", scn.name, v.kind, v.detail));
                } else {
                    // keep every distinct (property, kind, scenario class) - capped per key, never
                    // globally, so that a flood of one kind cannot crowd out another
                    let class = scn.name.split(':').next().unwrap_or("").to_owned();
                    let key = (v.prop, v.kind.clone(), class);
                    let n = o.found_per_key.entry(key.clone()).or_insert(0);
                    *n += 1;
                    // within one key, keep a few examples of every distinct shape of detail text
                    // (digits ignored), so that one frequent shape cannot hide a rare one
                    let nodigits: Vec<char> = v.detail.chars().filter(|c| !c.is_ascii_digit()).collect();
                    let shape: String = nodigits.iter().take(48).chain(nodigits.iter().rev().take(48)).collect();
                    let m = o.kept_per_shape.entry((key, shape)).or_insert(0);
                    *m += 1;
                    if *m <= 8 {
                        o.found.push(Found {
                            scenario: scn.clone(),
                            devs: devs.clone(),
                            violation: v,
                        });
                    }
                }
            }
        }
        if is_root && !children.is_empty() {
            *sh.baselines[si].lock().unwrap() = Some(Arc::new(res));
        }
        let mut g = sh.stack.lock().unwrap();
        g.0.extend(children);
        g.1 -= 1;
    }
}

/// Coverage audit of the driver: how many scenarios exhibited each feature value and each pair of
/// feature values (see `Scenario::features`). Written to the evidence by `Report::finish`.
pub static AUDIT: Mutex<Option<HashMap<(String, String), u64>>> = Mutex::new(None);

pub fn audit_scenarios(scns: &[Scenario], k: Option<usize>, stateful: bool) {
    let mut g = AUDIT.lock().unwrap();
    let m = g.get_or_insert_with(HashMap::new);
    for s in scns {
        let f = s.features(k, stateful);
        for i in 0..f.len() {
            *m.entry((f[i].clone(), String::new())).or_insert(0) += 1;
            for j in i + 1..f.len() {
                *m.entry((f[i].clone(), f[j].clone())).or_insert(0) += 1;
            }
        }
    }
}

pub fn explore(scns: &[Scenario], cfg: &ExploreCfg, judge: Judge) -> ExploreOut {
    assert!(cfg.k.is_some() || cfg.stateful, "unbounded exploration needs the visited set");
    let owned: Vec<Scenario>;
    let scns: &[Scenario] = if cfg.variants.is_empty() {
        scns
    } else {
        owned = with_variants(scns, cfg.variants, cfg.variant_every);
        &owned
    };
    audit_scenarios(scns, cfg.k, cfg.stateful);
    let t0 = Instant::now();
    let mut roots: Vec<(usize, Devs)> = (0..scns.len()).map(|i| (i, Vec::new())).collect();
    roots.reverse();
    let sh = Shared {
        stack: Mutex::new((roots, 0)),
        baselines: (0..scns.len()).map(|_| Mutex::new(None)).collect(),
        visited: (0..scns.len()).map(|_| Visited::new()).collect(),
        out: Mutex::new(ExploreOut::default()),
        execs: AtomicU64::new(0),
        stop: AtomicBool::new(false),
        scns,
        cfg,
        judge,
        t0,
    };
    std::thread::scope(|s| {
        for _ in 0..cfg.threads.max(1) {
            s.spawn(|| worker(&sh));
        }
    });
    let mut out = sh.out.into_inner().unwrap();
    out.scenarios = scns.len() as u64;
    out.wall_s = t0.elapsed().as_secs_f64();
    out
}

/// Tries to drop deviations one at a time while the same (property, kind) still fails.
pub fn minimise(f: &Found, judge: Judge) -> Found {
    let mut best = f.clone();
    let fails = |devs: &Devs| -> Option<Violation> {
        let opt = RunOpt::default();
        let res = run_scn(&f.scenario, devs, &opt);
        let base = if devs.is_empty() { None } else { Some(run_scn(&f.scenario, &Vec::new(), &opt)) };
        let mut v = res.violations.clone();
        v.extend(judge(&f.scenario, &res, base.as_ref()));
        v.into_iter().find(|x| x.prop == f.violation.prop && x.kind == f.violation.kind)
    };
    let mut i = 0;
    while i < best.devs.len() {
        let mut d = best.devs.clone();
        d.remove(i);
        // removing a deviation shifts later point indices only if it changed the number of
        // points; re-running decides
        if let Some(v) = fails(&d) {
            best.devs = d;
            best.violation = v;
        } else {
            i += 1;
        }
    }
    best
}

/// Re-executes a found violation from its choice sequence; true if it reproduces.
pub fn reproduces(f: &Found, judge: Judge) -> bool {
    let opt = RunOpt::default();
    let res = run_scn(&f.scenario, &f.devs, &opt);
    let base = if f.devs.is_empty() { None } else { Some(run_scn(&f.scenario, &Vec::new(), &opt)) };
    let mut v = res.violations.clone();
    v.extend(judge(&f.scenario, &res, base.as_ref()));
    v.iter().any(|x| x.prop == f.violation.prop && x.kind == f.violation.kind)
}
