//! C08: malformed or foreign packets are discarded without panic or effect.
//! Live injection: one forged packet (an authentic packet of the link with exactly one aspect
//! replaced) at every round and position; differential against the run without the injection.
use crate::explore::{explore, ExploreCfg};
use crate::props::codec::ALLOC_BOUND;
use crate::props::core::base_scn;
use crate::report::Report;
use crate::scenario::*;
use crate::types::{Pred, Program};
use crate::wire::*;
use crate::world::{run_scn, ExecResult, RunOpt, Violation};
use ggrs::verif_hooks::codec;
use serde_json::json;
use std::collections::HashMap;
use std::sync::Mutex;
use std::time::Duration;

fn v(kind: &str, node: usize, round: i32, detail: String) -> Violation {
    Violation { prop: "C08", kind: kind.to_owned(), detail, round, node }
}

/// What a session did and reported, round by round (network traffic is not part of it).
fn behaviour(res: &ExecResult, ni: usize) -> Vec<String> {
    let n = &res.nodes[ni];
    let mut out = Vec::new();
    for c in &n.calls {
        let evs: Vec<String> = n.events.iter().filter(|e| e.0 == c.round).map(|e| format!("{:?}", e.2)).collect();
        out.push(format!("round {} res {} adv {} cur {} conf {} running {} events {:?}", c.round, c.res, c.n_adv, c.cur, c.conf, c.running, evs));
    }
    for (f, fr) in n.sims.iter().enumerate() {
        out.push(format!("frame {f} vals {:?} stats {:?}", fr.vals, fr.stats));
    }
    out.push(format!("conn {:?}", n.conn));
    out.push(format!("crashed {:?}", n.crashed));
    out
}

static BASE: Mutex<Option<HashMap<String, Vec<Vec<String>>>>> = Mutex::new(None);

fn baseline(scn: &Scenario) -> Vec<Vec<String>> {
    let mut c = scn.clone();
    c.name = String::new();
    c.inject.clear();
    let key = serde_json::to_string(&c).unwrap();
    if let Some(m) = BASE.lock().unwrap().as_ref() {
        if let Some(r) = m.get(&key) {
            return r.clone();
        }
    }
    let res = run_scn(&c, &Vec::new(), &RunOpt::default());
    let b: Vec<Vec<String>> = (0..res.nodes.len()).map(|i| behaviour(&res, i)).collect();
    BASE.lock().unwrap().get_or_insert_with(HashMap::new).insert(key, b.clone());
    b
}

pub fn judge(scn: &Scenario, res: &ExecResult, _b: Option<&ExecResult>) -> Vec<Violation> {
    let mut out = Vec::new();
    if scn.inject.is_empty() {
        return out;
    }
    let inj = &scn.inject[0];
    let what = scn.name.rsplit(" forged ").next().unwrap_or("");
    for (ni, nt) in res.nodes.iter().enumerate() {
        if let Some(m) = &nt.crashed {
            out.push(v("panic-on-forged-packet", ni, inj.round, format!("forged packet ({what}) -> session panicked: {m}")));
        }
        if nt.peak_alloc > ALLOC_BOUND {
            out.push(v("unbounded-allocation", ni, inj.round, format!("forged packet ({what}): an API call allocated {} bytes at its peak (bound {ALLOC_BOUND})", nt.peak_alloc)));
        }
    }
    if !out.is_empty() {
        return out;
    }
    let base = baseline(scn);
    for ni in 0..res.nodes.len() {
        let b = behaviour(res, ni);
        if b != base[ni] {
            let diff = b.iter().zip(base[ni].iter()).find(|(x, y)| x != y).map(|(x, y)| format!("with the forged packet: [{x}] / without: [{y}]")).unwrap_or_else(|| format!("lengths {} / {}", b.len(), base[ni].len()));
            out.push(v("forged-packet-has-effect", ni, inj.round, format!("forged packet ({what}) changed what session {ni} does: {diff}")));
            break;
        }
    }
    out
}

fn reencode(authentic: &WInput, f: impl Fn(&mut Vec<Vec<u8>>)) -> Vec<u8> {
    // split the authentic payload into its per-frame byte strings (values are XOR deltas, which
    // is fine: only the shape matters here), apply the change, and encode again
    let mut frames = codec::decode(&[], &authentic.bytes).unwrap_or_default();
    f(&mut frames);
    codec::encode(&[], frames.iter())
}

/// All single-aspect forgeries of one authentic Input message.
fn forgeries(auth: &WMessage, n_players: usize, payloads: &[Vec<u8>]) -> Vec<(String, WMessage)> {
    let WBody::Input(inp) = &auth.body else { return Vec::new() };
    let mut out: Vec<(String, WMessage)> = Vec::new();
    // the size one frame of this sender has on the wire (all its players, one byte each)
    let frame_size = codec::decode(&[], &inp.bytes).ok().and_then(|f| f.first().map(Vec::len)).unwrap_or(1);
    // a payload that decodes to >= 1 frames, all of the right size, is a well-formed packet and
    // indistinguishable from authentic traffic: not a forgery in the sense of the property
    // (an empty sequence of frames is a valid encoding too: the pinned suite asserts that round
    // trip; such a packet carries an acknowledgement and statuses only)
    let well_formed = |b: &[u8]| codec::decode(&[], b).map(|f| f.iter().all(|x| x.len() == frame_size)).unwrap_or(false);
    let mk = |i: WInput| WMessage { magic: auth.magic, body: WBody::Input(i) };
    for cnt in [0usize, n_players.saturating_sub(1), n_players + 1, 255] {
        let mut i = inp.clone();
        i.peer_connect_status = vec![WConn { disconnected: false, last_frame: 3 }; cnt];
        out.push((format!("status-count={cnt}"), mk(i)));
    }
    for sf in [-1, -2, -500, i32::MIN] {
        let mut i = inp.clone();
        i.start_frame = sf;
        out.push((format!("start-frame={sf}"), mk(i)));
    }
    for p in payloads {
        if well_formed(p) {
            continue;
        }
        let mut i = inp.clone();
        i.bytes = p.clone();
        out.push((format!("payload={p:02x?}"), mk(i)));
    }
    for k in 0..inp.bytes.len() {
        let mut i = inp.clone();
        i.bytes.truncate(k);
        if !well_formed(&i.bytes) {
            out.push((format!("payload-truncated-to-{k}"), mk(i)));
        }
        for sub in [0x00u8, 0x80, 0xFF, inp.bytes[k] ^ 0x01] {
            if sub != inp.bytes[k] {
                let mut i = inp.clone();
                i.bytes[k] = sub;
                if !well_formed(&i.bytes) {
                    out.push((format!("payload-byte-{k}={sub:02x}"), mk(i)));
                }
            }
        }
    }
    // decoded frames of the wrong size; the values differ from anything authentic so that an
    // accepted frame shows in the timeline
    for (name, f) in [
        ("frame-size-0", Box::new(|fr: &mut Vec<Vec<u8>>| for x in fr.iter_mut() { x.clear() }) as Box<dyn Fn(&mut Vec<Vec<u8>>)>),
        ("frame-size-s+1", Box::new(|fr: &mut Vec<Vec<u8>>| for x in fr.iter_mut() { for b in x.iter_mut() { *b ^= 0x2A } x.push(0x11) })),
        ("frame-size-s-1", Box::new(|fr: &mut Vec<Vec<u8>>| for x in fr.iter_mut() { for b in x.iter_mut() { *b ^= 0x2A } x.pop(); })),
        ("frame-size-2s", Box::new(|fr: &mut Vec<Vec<u8>>| for x in fr.iter_mut() { for b in x.iter_mut() { *b ^= 0x2A } let c = x.clone(); x.extend(c) })),
        ("extra-frames-of-size-s+1", Box::new(|fr: &mut Vec<Vec<u8>>| { let l = fr.last().cloned().unwrap_or_default(); for _ in 0..3 { let mut y = l.clone(); for b in y.iter_mut() { *b ^= 0x15 } y.push(7); fr.push(y) } })),
    ] {
        let mut i = inp.clone();
        i.bytes = reencode(inp, f);
        out.push((name.to_owned(), mk(i.clone())));
        // the same wrong-size frames in a packet whose other fields would do damage if any part of
        // it were acted upon
        if name == "frame-size-s+1" || name == "frame-size-0" {
            for (fname, g) in field_damage(n_players) {
                let mut j = i.clone();
                g(&mut j);
                out.push((format!("{name}+{fname}"), mk(j)));
            }
        }
    }
    // an undecodable payload together with fields that would do damage if the packet were only
    // partly discarded: an acknowledgement of everything, every player reported as disconnected,
    // a disconnect request
    for p in [vec![0x80u8], vec![0xFF], vec![0x06, 0x01], vec![0x02, 0x01], vec![0xFD, 0xFF, 0xFF, 0x7F]] {
        // only payloads that really are invalid: not decodable at all, or frames of a wrong size
        // (an empty sequence of frames is a valid encoding, such a packet is well-formed)
        let invalid = match codec::decode(&[], &p) {
            Err(_) => true,
            Ok(f) => f.iter().any(|x| x.len() != frame_size),
        };
        if !invalid {
            continue;
        }
        for (fname, g) in field_damage(n_players) {
            let mut i = inp.clone();
            i.bytes = p.clone();
            g(&mut i);
            out.push((format!("payload={p:02x?}+{fname}"), mk(i)));
        }
    }
    out
}

/// Packets that claim to be encoded against a frame the receiver cannot hold (start frame far
/// ahead of anything sent) and whose payload is garbage or stale: nothing in them can be
/// validated, so none of their fields may be acted upon (the receiver may acknowledge what it
/// holds and count the packet as a sign of life, nothing more). Only meaningful once the receiver
/// holds input of that peer - the very first input packet may start at any frame.
fn unheld_reference_forgeries(auth: &WMessage, n_players: usize) -> Vec<(String, WMessage)> {
    let WBody::Input(inp) = &auth.body else { return Vec::new() };
    let mut out = Vec::new();
    for p in [vec![0x80u8], vec![0xFF], inp.bytes.clone()] {
        for (fname, g) in field_damage(n_players) {
            let mut i = inp.clone();
            i.start_frame = inp.start_frame.max(0) + 40;
            i.bytes = p.clone();
            g(&mut i);
            out.push((format!("unheld-reference(start+40)+payload={:02x?}+{fname}", &p[..p.len().min(4)]), WMessage { magic: auth.magic, body: WBody::Input(i) }));
        }
    }
    out
}

/// The smallest rng seed whose k-th 16-bit draw is 0 while the earlier ones are not.
fn seed_with_zero_draw(k: usize) -> u64 {
    for seed in 1u64..50_000_000 {
        ggrs::verif_hooks::reset(0, seed, 1);
        let mut ok = true;
        for i in 0..k {
            let d: u16 = ggrs::verif_hooks::rand::random::<u16>();
            if (d == 0) != (i + 1 == k) {
                ok = false;
                break;
            }
        }
        if ok {
            return seed;
        }
    }
    panic!("no rng seed with a zero draw found");
}

type FieldChange = Box<dyn Fn(&mut WInput)>;

fn field_damage(n_players: usize) -> Vec<(&'static str, FieldChange)> {
    vec![
        ("ack-everything", Box::new(|i: &mut WInput| i.ack_frame = 1_000_000) as FieldChange),
        ("all-players-reported-disconnected", Box::new(move |i: &mut WInput| i.peer_connect_status = vec![WConn { disconnected: true, last_frame: 0 }; n_players])),
        ("disconnect-requested", Box::new(|i: &mut WInput| i.disconnect_requested = true)),
    ]
}

fn foreign_kinds(auth_magic: u16) -> Vec<(String, WMessage)> {
    let m = auth_magic ^ 0x1357;
    let bodies = vec![
        WBody::SyncRequest { random_request: 77 },
        WBody::SyncReply { random_reply: 78 },
        WBody::Input(WInput { peer_connect_status: vec![WConn { disconnected: true, last_frame: 2 }; 2], disconnect_requested: false, start_frame: 0, ack_frame: 1000, bytes: codec::encode(&[], [vec![9u8], vec![9u8], vec![8u8]].iter()) }),
        WBody::Input(WInput { peer_connect_status: vec![WConn { disconnected: false, last_frame: 2 }; 2], disconnect_requested: true, start_frame: 500, ack_frame: -1, bytes: codec::encode(&[], [vec![9u8]].iter()) }),
        WBody::InputAck { ack_frame: 100_000 },
        WBody::QualityReport { frame_advantage: 30_000, ping: 5 },
        WBody::QualityReply { pong: 1 },
        WBody::ChecksumReport { checksum: 42, frame: 1 },
        WBody::KeepAlive,
    ];
    bodies.into_iter().map(|b| (format!("foreign-magic {}", KIND_NAMES[b.kind() as usize]), WMessage { magic: m, body: b })).collect()
}

/// The decoded length a run-length stream announces (saturating; a truncated varint ends the walk).
pub fn announced_len(data: &[u8]) -> u64 {
    let (mut off, mut total) = (0usize, 0u64);
    while off < data.len() {
        let (mut v, mut sh) = (0u64, 0u32);
        loop {
            let Some(&b) = data.get(off) else { return total };
            off += 1;
            if sh < 63 {
                v |= u64::from(b & 127) << sh;
            }
            sh += 7;
            if b & 128 == 0 {
                break;
            }
        }
        let rep = v & 1 == 1;
        let run = if rep { v >> 2 } else { v >> 1 };
        total = total.saturating_add(run);
        if !rep {
            off = off.saturating_add(run as usize);
        }
    }
    total
}

fn payload_words(max_len: usize) -> Vec<Vec<u8>> {
    let mut v = vec![vec![]];
    if max_len >= 1 {
        for a in 0..=255u8 {
            v.push(vec![a]);
        }
    }
    if max_len >= 2 {
        for a in 0..=255u8 {
            for b in 0..=255u8 {
                v.push(vec![a, b]);
            }
        }
    }
    v
}

fn structured_payloads() -> Vec<Vec<u8>> {
    let mut v: Vec<Vec<u8>> = vec![vec![0x80], vec![0xFF], vec![0x0f, 0xfb], vec![0xfd, 0xff, 0x03], vec![0xfd, 0xff, 0xff, 0x7f], vec![0xfd, 0xff, 0xff, 0xff, 0x0f], vec![0x02, 0x01], vec![0x06, 0x05, 0x00, 0x09], vec![0x06, 0xff, 0xff, 0x09]];
    for a in [0x00u8, 0x01, 0x7f, 0x80, 0xff] {
        for b in [0x00u8, 0x01, 0x7f, 0x80, 0xff] {
            for c in [0x00u8, 0x01, 0x7f, 0x80, 0xff] {
                v.push(vec![a, b, c]);
            }
        }
    }
    v
}

pub fn c08() -> i32 {
    let mut rep = Report::new("C08", "model_checking");
    let t = rep.thorough();
    rep.rule = "live injection grid: one forged packet - a re-serialised authentic Input of that link with one aspect replaced (status count, start frame, payload from the enumerated byte strings / single-byte substitutions / truncations / multi-run streams, wrong frame sizes) or two (an invalid payload or wrong-size frames together with an acknowledgement of everything, statuses reporting every player disconnected, or a disconnect request - so that acting on any part of a packet that is to be discarded shows), or any message kind under a foreign magic, or an unknown source address - at every round (handshake, running, after a timeout disconnect, after shutdown) and both positions relative to the authentic packets; differential oracle against the same run without the injection; plus the decoder sweep of C14 for the payload bytes in isolation; non-trivial = every injected run; distinct = distinct forged packets x rounds".to_owned();
    rep.assumptions = vec!["a forged packet with the right magic and a well-formed, decodable, right-sized payload (including the valid encoding of an empty sequence of frames) is indistinguishable from authentic traffic and is not in scope".into(), "random/mutational payloads beyond the enumerated ones are not attempted".into()];
    let props = ["C08", "PANIC"];
    // every payload of <= 1 byte plus the structured family at every round; in the thorough tier
    // additionally every 2-byte payload at three protocol states (one round each of the
    // handshake, the running phase and the phase after a disconnect)
    let payloads: Vec<Vec<u8>> = { let mut p = payload_words(1); p.extend(structured_payloads()); p };
    let payloads2: Vec<Vec<u8>> = if t { let mut p = payload_words(2); p.extend(structured_payloads()); p } else { payloads.clone() };
    // run-length streams of several runs (each run and their mixtures from the decoder sweep's
    // structured family) whose announced total stays below 512 MiB, at one round of each base
    let multi: Vec<Vec<u8>> = crate::props::codec::structured_family().into_iter().filter(|p| announced_len(p) <= 512 << 20).collect();
    let mut scns: Vec<Scenario> = Vec::new();
    let mut n_forged = 0usize;
    let mut states = Vec::new();
    // (name, base scenario, rounds at which to inject)
    let mut bases: Vec<(Scenario, Vec<i32>)> = Vec::new();
    // the last two bases run with the five-byte input type (frames of 5 and 10 bytes on the wire)
    for (w, spec, tp, wide) in [(2usize, false, "1+1", false), (0, false, "1+1", false), (8, true, "1+1", false), (3, false, "1+2", false), (2, false, "1+1", true), (3, true, "1+2", true)] {
        // running phase (rollback-heavy: changing inputs, 1 round of latency)
        let mut s = base_scn(if wide { "c08-running-wide" } else { "c08-running" }, tp, w, 0, false, Pred::RepeatLast, Program::Changing, 1);
        s.wide = wide;
        if spec {
            s.specs.push(SpecSpec::new(20, s.peers[0].addr));
        }
        s.horizon = 14;
        s.probe = 30;
        s.checks = CK_CORE;
        bases.push((s, if t { (0..12).collect() } else if wide { vec![1, 4] } else { vec![0, 1, 4, 9] }));
        // handshake phase
        let mut s = base_scn(if wide { "c08-handshake-wide" } else { "c08-handshake" }, tp, w, 0, false, Pred::RepeatLast, Program::Changing, 1);
        s.wide = wide;
        if spec {
            s.specs.push(SpecSpec::new(20, s.peers[0].addr));
        }
        s.handshake_phase = true;
        s.horizon = 16;
        s.probe = 40;
        s.checks = CK_CORE;
        bases.push((s, if t { (0..14).collect() } else if wide { vec![2, 9] } else { vec![0, 2, 5, 9, 11] }));
    }
    // the first peer's own packets do not get through for a while (rounds 4..10): what it has
    // sent is still unacknowledged when the forged packet arrives, so a forged acknowledgement
    // that is acted upon makes it forget input its peer never received
    for (w, d) in [(8usize, 0usize), (3, 2)] {
        let mut s = base_scn("c08-running-outage", "1+1", w, d, false, Pred::RepeatLast, Program::Changing, 1);
        let (a, b) = (s.peers[0].addr, s.peers[1].addr);
        s.outages.push(crate::net::Outage { from: a, to: b, start: 4, len: 6, classes: CLASS_ALL });
        s.horizon = 14;
        s.probe = 40;
        s.checks = CK_CORE;
        bases.push((s, vec![6, 9]));
    }
    // endpoints whose first draw for their magic number is 0 (the value the receiving side
    // uses for "peer not known yet"): the draw has to be repeated, otherwise the peer's magic
    // filter stays off for the whole session
    for k in 1..=3usize {
        let mut s = base_scn("c08-zero-magic-draw", "1+1", 2, 0, false, Pred::RepeatLast, Program::Changing, 1);
        s.specs.push(SpecSpec::new(20, s.peers[0].addr));
        s.rng_seed = seed_with_zero_draw(k);
        s.name = format!("{} rng draw #{k} is 0 (seed {})", s.name, s.rng_seed);
        s.horizon = 14;
        s.probe = 30;
        s.checks = CK_CORE;
        bases.push((s, vec![1, 6]));
    }
    // after a timeout disconnect and after shutdown
    {
        let mut s = base_scn("c08-after-disconnect", "1+1", 2, 0, false, Pred::RepeatLast, Program::Changing, 1);
        for p in s.peers.iter_mut() {
            p.notify_ms = 100;
            p.timeout_ms = 300;
        }
        s.script.push(ScriptItem { round: 5, node: 1, action: Action::Die });
        s.horizon = 8;
        s.probe = 360;
        s.checks = crate::props::drop::CK_DROP;
        bases.push((s, vec![12, 26, 40, 330, 345]));
    }
    for (base, rounds) in &bases {
        let sn = run_scn(base, &Vec::new(), &RunOpt { sniff: true, ..Default::default() });
        let (a, b) = (base.peers[0].addr, base.peers[1].addr);
        // authentic Input packets b -> a, the last one sent at or before the injection round
        let inputs: Vec<(i32, WMessage)> = sn.sniff.iter().filter(|p| p.1 == b && p.2 == a && matches!(p.3.body, WBody::Input(_))).map(|p| (p.0, p.3.clone())).collect();
        let b_magic = sn.sniff.iter().find(|p| p.1 == b && p.2 == a).map(|p| p.3.magic).unwrap_or(1);
        if std::env::var("VERIF_DEBUG_MAGIC").is_ok() {
            let mut ms: Vec<(u8, u8, u16)> = sn.sniff.iter().map(|p| (p.1, p.2, p.3.magic)).collect();
            ms.sort_unstable();
            ms.dedup();
            eprintln!("MAGICS {} -> {ms:?}", base.name);
        }
        states.push(json!({"base": base.name, "rounds": rounds, "authentic_inputs_sniffed": inputs.len()}));
        for &r in rounds {
            // the newest authentic input sent before round r (so that its frames may still be new
            // to the receiver when injected before the authentic packets of round r)
            let auth = inputs.iter().rev().find(|p| p.0 <= r).or(inputs.first());
            // an authentic packet the receiver has certainly processed already (latency 1)
            let old_auth = inputs.iter().rev().find(|p| p.0 <= r - 3);
            let mut forged: Vec<(String, WMessage)> = Vec::new();
            let big = t && Some(&r) == rounds.get(1) && base.specs.is_empty() && base.peers[0].window == 2;
            let with_multi = Some(&r) == rounds.get(1) && base.specs.is_empty() && base.peers[0].window == 2;
            let mut pl: Vec<Vec<u8>> = if big { payloads2.clone() } else { payloads.clone() };
            if with_multi {
                pl.extend(multi.iter().cloned());
            }
            let payloads = &pl;
            if let Some((_, m)) = auth {
                forged.extend(forgeries(m, base.num_players, payloads));
                if old_auth.is_some() && !base.name.starts_with("c08-after-disconnect") {
                    forged.extend(unheld_reference_forgeries(m, base.num_players));
                }
                if let Some((_, om)) = old_auth {
                    forged.extend(forgeries(om, base.num_players, &[]).into_iter().filter(|f| f.0.starts_with("frame-size") || f.0.starts_with("extra-frames")).map(|f| (format!("old-{}", f.0), f.1)));
                }
                // frames appended to a packet whose own frames are still new arrive with
                // authentic content one round early: not a forgery, leave that variant out
                forged.retain(|f| f.0 != "extra-frames-of-size-s+1");
            } else {
                // no authentic input exists yet (early handshake): forge one from scratch
                let m = WMessage { magic: b_magic, body: WBody::Input(WInput { peer_connect_status: vec![WConn { disconnected: false, last_frame: -1 }; base.num_players], disconnect_requested: false, start_frame: 0, ack_frame: -1, bytes: if base.wide { let one = bincode::serialize(&crate::types::Wide::of(3)).unwrap(); let fr: Vec<u8> = one.iter().cycle().take(one.len() * base.peers[1].locals.len()).copied().collect(); codec::encode(&vec![0; fr.len()], [fr].iter()) } else { codec::encode(&[0], [vec![3u8]].iter()) } }) };
                forged.extend(forgeries(&m, base.num_players, payloads));
            }
            forged.extend(foreign_kinds(b_magic));
            n_forged += forged.len();
            for (what, m) in forged {
                for before in [true, false] {
                    let mut s = base.clone();
                    s.inject.push(InjectSpec { round: r, to: a, from: b, msg: m.clone(), before });
                    s.name = format!("{} round={r} before={before} forged {what}", base.name);
                    scns.push(s);
                }
            }
            // unknown source address: an authentic packet arriving from an address the session
            // does not know, unchanged and with other input values in it (right magic, right
            // sizes - only the source address tells it from the peer's traffic)
            if let Some((_, m)) = auth {
                let mut s = base.clone();
                s.inject.push(InjectSpec { round: r, to: a, from: 99, msg: m.clone(), before: true });
                s.name = format!("{} round={r} before=true forged unknown-source-address", base.name);
                scns.push(s);
                if let WBody::Input(inp) = &m.body {
                    let mut i = inp.clone();
                    i.bytes = reencode(inp, |fr: &mut Vec<Vec<u8>>| {
                        for x in fr.iter_mut() {
                            for b in x.iter_mut() {
                                *b ^= 0x2A;
                            }
                        }
                        // and frames the receiver cannot have yet
                        let l = fr.last().cloned().unwrap_or_default();
                        for _ in 0..3 {
                            fr.push(l.clone());
                        }
                    });
                    let mut s = base.clone();
                    s.inject.push(InjectSpec { round: r, to: a, from: 99, msg: WMessage { magic: m.magic, body: WBody::Input(i) }, before: true });
                    s.name = format!("{} round={r} before=true forged unknown-source-address-other-values", base.name);
                    scns.push(s);
                }
            }
            // to the spectator from an unknown address, carrying its host's magic: the newest
            // authentic host->spectator input with other values and further frames
            if !base.specs.is_empty() {
                let host_inputs: Vec<&(i32, crate::types::Addr, crate::types::Addr, WMessage)> = sn.sniff.iter().filter(|p| p.1 == a && p.2 == 20 && matches!(p.3.body, WBody::Input(_)) && p.0 <= r).collect();
                if let Some(p) = host_inputs.last() {
                    if let WBody::Input(inp) = &p.3.body {
                        for extra in [0usize, 3] {
                            let mut i = inp.clone();
                            i.bytes = reencode(inp, |fr: &mut Vec<Vec<u8>>| {
                                for x in fr.iter_mut() {
                                    for b in x.iter_mut() {
                                        *b ^= 0x2A;
                                    }
                                }
                                let l = fr.last().cloned().unwrap_or_default();
                                for _ in 0..extra {
                                    fr.push(l.clone());
                                }
                            });
                            for before in [true, false] {
                                let mut s = base.clone();
                                s.inject.push(InjectSpec { round: r, to: 20, from: 99, msg: WMessage { magic: p.3.magic, body: WBody::Input(i.clone()) }, before });
                                s.name = format!("{} round={r} before={before} forged to-spectator unknown-source-address-host-magic extra-frames={extra}", base.name);
                                scns.push(s);
                            }
                        }
                    }
                }
            }
            // another session's magic on packets that are otherwise shaped exactly like the
            // link's own traffic (newest authentic input of that link with other values and further
            // frames): towards the second peer and towards the spectator (the grid above only
            // attacks the first peer)
            for (from, to) in [(a, b), (a, 20u8), (b, a)] {
                if to == 20 && base.specs.is_empty() {
                    continue;
                }
                let link_inputs: Vec<&(i32, crate::types::Addr, crate::types::Addr, WMessage)> = sn.sniff.iter().filter(|p| p.1 == from && p.2 == to && matches!(p.3.body, WBody::Input(_)) && p.0 <= r).collect();
                let Some(p) = link_inputs.last() else { continue };
                let WBody::Input(inp) = &p.3.body else { continue };
                let mut i = inp.clone();
                i.bytes = reencode(inp, |fr: &mut Vec<Vec<u8>>| {
                    for x in fr.iter_mut() {
                        for b in x.iter_mut() {
                            *b ^= 0x2A;
                        }
                    }
                    let l = fr.last().cloned().unwrap_or_default();
                    for _ in 0..3 {
                        fr.push(l.clone());
                    }
                });
                for before in [true, false] {
                    let mut s = base.clone();
                    s.inject.push(InjectSpec { round: r, to, from, msg: WMessage { magic: p.3.magic ^ 0x2468, body: WBody::Input(i.clone()) }, before });
                    s.name = format!("{} round={r} before={before} forged foreign-magic authentic-shape-other-values {from}->{to}", base.name);
                    scns.push(s);
                }
            }
            // to the spectator from its host's address
            if !base.specs.is_empty() {
                for (what, m) in foreign_kinds(b_magic).into_iter().take(4) {
                    let mut s = base.clone();
                    s.inject.push(InjectSpec { round: r, to: 20, from: a, msg: m, before: true });
                    s.name = format!("{} round={r} before=true forged to-spectator {what}", base.name);
                    scns.push(s);
                }
            }
        }
    }
    let n = scns.len();
    let cfg = ExploreCfg { k: Some(0), wall: Duration::from_secs(if t { 3000 } else { 45 }), ..Default::default() };
    let mut out = explore(&scns, &cfg, &judge);
    // every injected run is a distinct non-trivial case by construction (distinct forged packet,
    // round or position); the trace fingerprints coincide exactly when the packet had no effect
    for s in &scns {
        let mut h = 0xcbf2_9ce4_8422_2325u64;
        crate::types::fnv(&mut h, s.name.as_bytes());
        out.nontrivial.insert(h);
    }
    for s in scns.iter().step_by((n / 5).max(1)).take(5) {
        rep.samples.push(json!({"scenario": s.name, "forged_packet": s.inject[0].msg, "to": s.inject[0].to, "from": s.inject[0].from, "round": s.inject[0].round, "before_authentic": s.inject[0].before}));
    }
    rep.absorb("live injection: one forged packet per run", out, &props, json!({"k": 0, "scenarios": n, "forged_packets": n_forged, "payload_strings_every_round": payloads.len(), "payload_strings_at_three_states": payloads2.len(), "multi_run_payload_strings_at_one_round_per_base": multi.len(), "protocol_states": states}));
    // two injections (thorough): pairs of structurally different forgeries at two rounds
    if t {
        let mut scns2 = Vec::new();
        let (base, _) = &bases[0];
        let sn = run_scn(base, &Vec::new(), &RunOpt { sniff: true, ..Default::default() });
        let (a, b) = (base.peers[0].addr, base.peers[1].addr);
        let inputs: Vec<(i32, WMessage)> = sn.sniff.iter().filter(|p| p.1 == b && p.2 == a && matches!(p.3.body, WBody::Input(_))).map(|p| (p.0, p.3.clone())).collect();
        let small = structured_payloads();
        for r1 in [1, 4] {
            for r2 in [5, 8] {
                // (the variant that appends frames to a packet whose own frames are still new is
                // left out here as in the single-injection grid: its authentic part arrives early)
                let mut f1 = forgeries(&inputs.iter().rev().find(|p| p.0 <= r1).unwrap().1, 2, &small[..9]);
                let mut f2 = forgeries(&inputs.iter().rev().find(|p| p.0 <= r2).unwrap().1, 2, &small[..9]);
                f1.retain(|f| f.0 != "extra-frames-of-size-s+1");
                f2.retain(|f| f.0 != "extra-frames-of-size-s+1");
                for (w1, m1) in &f1 {
                    for (w2, m2) in &f2 {
                        let mut s = base.clone();
                        s.inject.push(InjectSpec { round: r1, to: a, from: b, msg: m1.clone(), before: true });
                        s.inject.push(InjectSpec { round: r2, to: a, from: b, msg: m2.clone(), before: false });
                        s.name = format!("{} two injections r={r1},{r2} forged {w1} + {w2}", base.name);
                        scns2.push(s);
                    }
                }
            }
        }
        let n2 = scns2.len();
        let mut out = explore(&scns2, &cfg, &judge);
        for s in &scns2 {
            let mut h = 0xcbf2_9ce4_8422_2325u64;
            crate::types::fnv(&mut h, s.name.as_bytes());
            out.nontrivial.insert(h);
        }
        rep.absorb("live injection: two forged packets per run", out, &props, json!({"k": 0, "scenarios": n2}));
    }
    rep.states = rep.evaluations;
    rep.finish()
}
