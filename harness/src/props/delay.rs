//! C11: changing input delay at run time keeps all peers in agreement.
use crate::explore::{explore, ExploreCfg};
use crate::net::{Fate, Outage};
use crate::props::core::{base_scn, packet_faults};
use crate::report::Report;
use crate::scenario::*;
use crate::types::{Pred, Program};
use crate::wire::*;
use crate::world::{ExecResult, Violation, R_OK};
use serde_json::json;
use std::time::Duration;

fn v(kind: &str, node: usize, round: i32, detail: String) -> Violation {
    Violation { prop: "C11", kind: kind.to_owned(), detail, round, node }
}

/// Reference model of the documented semantics, replayed over the calls the owner really made.
/// Returns, per frame, the value the player's queue must hold.
fn model(scn: &Scenario, res: &ExecResult, owner: usize, p: usize) -> Vec<u8> {
    let nt = &res.nodes[owner];
    let mut delay = scn.peers[owner].delay as i32;
    let mut out: Vec<u8> = Vec::new(); // out[f] defined for f <= q
    let mut last_submitted = -1;
    let mut ai = 0;
    let actions: Vec<&crate::world::ActionRec> = nt.actions.iter().collect();
    for c in &nt.calls {
        while ai < actions.len() && actions[ai].round <= c.round {
            if let Action::SetDelay { handle, delay: d } = actions[ai].action {
                if handle == p && actions[ai].res == R_OK {
                    delay = d as i32;
                    // an increase repeats the last input for the frames it opens up, at once:
                    // the next accepted submission (session frame last_submitted + 1) must land
                    // on that frame plus the new delay
                    if !out.is_empty() {
                        let next_slot = last_submitted + 1 + delay;
                        let fill = *out.last().unwrap();
                        while (out.len() as i32) < next_slot {
                            out.push(fill);
                        }
                    }
                }
            }
            ai += 1;
        }
        if c.res != R_OK {
            continue;
        }
        let f = c.cur_before;
        if f <= last_submitted {
            continue; // the same session frame submitted again: ignored
        }
        last_submitted = f;
        let target = f + delay;
        let q = out.len() as i32 - 1;
        if target <= q {
            continue; // decrease: dropped until the queue has caught up
        }
        let fill = out.last().copied().unwrap_or(0);
        while (out.len() as i32) < target {
            out.push(fill);
        }
        out.push(scn.program.value(p, f));
    }
    out
}

pub fn judge(scn: &Scenario, res: &ExecResult, _b: Option<&ExecResult>) -> Vec<Violation> {
    let mut out = Vec::new();
    if res.cut.is_some() {
        return out;
    }
    for (ni, nt) in res.nodes.iter().enumerate() {
        if let Some(m) = &nt.crashed {
            out.push(v("panic", ni, nt.calls.last().map(|c| c.round).unwrap_or(0), format!("session {ni} panicked: {m}")));
        }
        for a in &nt.actions {
            if matches!(a.action, Action::SetDelay { .. }) && a.res != R_OK {
                out.push(v("set-input-delay-failed", ni, a.round, format!("{:?} returned {}", a.action, a.detail)));
            }
        }
    }
    if !out.is_empty() {
        return out;
    }
    let conf = |n: &crate::world::NodeTrace| n.calls.last().map(|c| if n.is_spec { c.cur - 1 } else { c.conf.min(c.cur - 1) }).unwrap_or(-1).min(n.sims.len() as i32 - 1);
    for p in 0..scn.num_players {
        let owner = scn.owner_of(p);
        let m = model(scn, res, owner, p);
        let on = &res.nodes[owner];
        let upto = conf(on).min(m.len() as i32 - 1);
        for f in 0..=upto {
            let got = on.sims[f as usize].vals[p];
            if got != m[f as usize] {
                out.push(v("owner-timeline-differs-from-model", owner, 0, format!(
                    "player {p} frame {f}: the owner finally used {got}; the documented semantics (submit at F lands on F+delay, increases repeat the last input, decreases drop until caught up) give {}", m[f as usize])));
                return out;
            }
        }
        for (ni, nt) in res.nodes.iter().enumerate() {
            if ni == owner {
                continue;
            }
            let both = conf(on).min(conf(nt));
            for f in 0..=both {
                let (a, b) = (on.sims[f as usize].vals[p], nt.sims[f as usize].vals[p]);
                if a != b {
                    out.push(v("remote-differs-from-owner", ni, 0, format!(
                        "player {p} frame {f}: the owner (session {owner}) finally used {a}, {} {ni} used {b}", if nt.is_spec { "spectator" } else { "session" })));
                    return out;
                }
            }
        }
    }
    // everyone keeps advancing
    let rates = crate::props::recovery::clean_rates(scn);
    for (ni, nt) in res.nodes.iter().enumerate() {
        let Some(last) = nt.calls.last() else { continue };
        let from = nt.calls.iter().find(|c| c.round >= last.round - crate::props::recovery::RATE_WINDOW).map(|c| c.cur).unwrap_or(last.cur);
        let r = last.cur - from;
        if 3 * r < rates[ni] || (rates[ni] > 0 && r <= 0) {
            out.push(v("frozen-after-delay-change", ni, last.round, format!(
                "{} {ni} advanced {r} frames in the last {} rounds (frame {}), the run without delay changes advances {}", if nt.is_spec { "spectator" } else { "session" }, crate::props::recovery::RATE_WINDOW, last.cur, rates[ni])));
        }
    }
    // nothing stranded in the outgoing buffer
    for (ni, nt) in res.nodes.iter().enumerate() {
        if nt.is_spec || ni >= scn.peers.len() {
            continue;
        }
        if let Some(&o) = nt.final_sizes.get(1) {
            // with several local players the entries of the player with the larger delay wait for
            // the others: at most (largest delay value used) entries can be pending legitimately
            let slack = if scn.peers[ni].locals.len() > 1 { 7 } else { 1 };
            if o > slack {
                out.push(v("outgoing-inputs-stranded", ni, 0, format!("{o} frames are still queued in the outgoing local input buffer at the end of the run")));
            }
        }
    }
    out
}

fn delay_scn(class: &str, tp: &str, w: usize, d0: usize, spec: bool, prefix: i32) -> Scenario {
    let mut s = base_scn(class, tp, w, d0, false, Pred::RepeatLast, Program::Changing, 1);
    if spec {
        // a spectator that catches up fast (a delay increase hands it a burst of confirmed frames)
        let mut sp = SpecSpec::new(20, s.peers[0].addr);
        sp.catchup = 8;
        sp.max_behind = 3;
        s.specs.push(sp);
        s.name = format!("{} +spectator(catchup 8, max_behind 3)", s.name);
    }
    s.name = format!("{} prefix={prefix}", s.name);
    s.checks = CK_C02 | CK_C04;
    s.horizon = prefix + 14;
    s.probe = 45;
    s
}

pub fn c11() -> i32 {
    let mut rep = Report::new("C11", "model_checking");
    let t = rep.thorough();
    rep.rule = "every sequence of up to 2 (quick) / 3 (thorough) set_input_delay calls, each with a value in 0..=6, a local player and a round of a window (several calls in the same round included), the window placed at the start and across the 128-slot input ring wrap; topologies with one or two local players, a spectator, three peers; with and without a stall of the calling peer; reference model of the documented delay semantics replayed over the calls actually made; non-trivial = every sequence (distinct call sequences), distinct = trace fingerprints".to_owned();
    rep.assumptions = vec!["the model: a submission at session frame F lands on F+delay; if that is not beyond the newest queued frame it is dropped, otherwise the frames in between repeat the last queued input".into()];
    let props = ["C11"];
    let max_calls = if t { 3 } else { 2 };
    let mut scns: Vec<Scenario> = Vec::new();
    let mut n_seq = 0u64;
    // (topology, window, initial delay, spectator, handles that may be changed on node 0, prefix)
    let mut cfgs: Vec<(&str, usize, usize, bool, Vec<usize>, i32)> = vec![
        ("1+1", 8, 0, false, vec![0], 0),
        ("1+1", 2, 3, false, vec![0], 0),
        ("2+1", 8, 0, false, vec![0, 1], 0),
        ("1+1", 8, 0, true, vec![0], 0),
        ("1+1", 8, 0, false, vec![0], 122),
        // an all-local host with a spectator: a delay increase confirms a burst of frames at once
        ("1", 8, 0, true, vec![0], 0),
    ];
    if t {
        cfgs.push(("1+1+1", 8, 0, false, vec![0], 0));
        cfgs.push(("2+1", 2, 3, true, vec![0, 1], 0));
        cfgs.push(("1+1", 8, 3, false, vec![0], 250));
        cfgs.push(("1+1", 0, 0, false, vec![0], 0));
        cfgs.push(("2", 3, 1, true, vec![0, 1], 0));
    }
    for (tp, w, d0, spec, handles, prefix) in &cfgs {
        let base = delay_scn("c11-seq", tp, *w, *d0, *spec, *prefix);
        let window: Vec<i32> = if *prefix > 0 { (*prefix..*prefix + 10).collect() } else { (0..10).collect() };
        let values: Vec<usize> = if t || *prefix == 0 && handles.len() == 1 { (0..=6).collect() } else { vec![0, 1, 3, 6] };
        // all sequences of 1..=max_calls calls, rounds non-decreasing
        let mut seqs: Vec<Vec<(i32, usize, usize)>> = vec![vec![]];
        let mut frontier: Vec<Vec<(i32, usize, usize)>> = vec![vec![]];
        for depth in 0..max_calls {
            let mut next = Vec::new();
            for sq in &frontier {
                let min_round = sq.last().map(|x| x.0).unwrap_or(window[0]);
                for &r in window.iter().filter(|r| **r >= min_round) {
                    // thin the third call's positions in the biggest grids
                    if depth == 2 && (r - window[0]) % 3 != 0 {
                        continue;
                    }
                    for &h in handles {
                        for &val in &values {
                            if depth == 2 && val % 2 == 1 {
                                continue;
                            }
                            let mut x = sq.clone();
                            x.push((r, h, val));
                            next.push(x);
                        }
                    }
                }
            }
            seqs.extend(next.iter().cloned());
            frontier = next;
        }
        for sq in seqs {
            let mut s = base.clone();
            for (r, h, val) in &sq {
                s.script.push(ScriptItem { round: *r, node: 0, action: Action::SetDelay { handle: *h, delay: *val } });
            }
            s.name = format!("{} calls={:?}", base.name, sq);
            n_seq += 1;
            scns.push(s);
        }
    }
    // with a stall of the calling peer around the calls (it is starved of remote input)
    for (tp, w) in [("1+1", 2usize), ("1+1", 8)] {
        let base = delay_scn("c11-stalled", tp, w, 0, false, 0);
        let (a, b) = (base.peers[0].addr, base.peers[1].addr);
        for r1 in 2..12 {
            for v1 in [0usize, 2, 5] {
                for r2 in r1..12 {
                    for v2 in [0usize, 1, 4, 6] {
                        if !t && (r2 - r1) % 2 == 1 {
                            continue;
                        }
                        let mut s = base.clone();
                        s.outages.push(Outage { from: b, to: a, start: 3, len: 12, classes: CLASS_INPUT });
                        s.script.push(ScriptItem { round: r1, node: 0, action: Action::SetDelay { handle: 0, delay: v1 } });
                        s.script.push(ScriptItem { round: r2, node: 0, action: Action::SetDelay { handle: 0, delay: v2 } });
                        s.horizon = 18;
                        s.name = format!("{} stalled calls=[({r1},{v1}),({r2},{v2})]", base.name);
                        n_seq += 1;
                        scns.push(s);
                    }
                }
            }
        }
    }
    let n = scns.len();
    let cfg = ExploreCfg { k: Some(0), wall: Duration::from_secs(if t { 3000 } else { 45 }), variants: crate::explore::NET_MENU, variant_every: if t { 1 } else { 3 }, ..Default::default() };
    let mut out = explore(&scns, &cfg, &judge);
    for s in &scns {
        let mut h = 0xcbf2_9ce4_8422_2325u64;
        crate::types::fnv(&mut h, s.name.as_bytes());
        out.nontrivial.insert(h);
    }
    rep.absorb("all sequences of set_input_delay calls", out, &props, json!({"k": 0, "max_calls": max_calls, "values": "0..=6", "window_rounds": 10, "sequences": n_seq, "scenarios": n, "configs": cfgs.iter().map(|c| format!("{} w={} d0={} spectator={} prefix={}", c.0, c.1, c.2, c.3, c.5)).collect::<Vec<_>>()}));
    // one packet deviation on top of a few two-call sequences
    {
        let mut scns = Vec::new();
        for calls in [[(3, 2usize), (6, 5usize)], [(2, 4), (5, 1)], [(4, 6), (4, 0)]] {
            let mut s = delay_scn("c11-D", "1+1", 8, 0, true, 0);
            for (r, val) in calls {
                s.script.push(ScriptItem { round: r, node: 0, action: Action::SetDelay { handle: 0, delay: val } });
            }
            s.name = format!("{} calls={calls:?}", s.name);
            s.fault = packet_faults(1, 8, CLASS_INPUT | CLASS_INPUT_ACK, vec![Fate::Drop, Fate::Delay(3)], 1);
            scns.push(s);
        }
        let cfg = ExploreCfg { k: Some(if t { 2 } else { 1 }), wall: Duration::from_secs(if t { 900 } else { 30 }), ..Default::default() };
        let out = explore(&scns, &cfg, &judge);
        rep.absorb("k packet/tick deviations around fixed two-call sequences", out, &props, json!({"k": cfg.k, "configs": scns.len()}));
    }
    rep.finish()
}
