//! C17: session behaviour is a function of its inputs, not of hash order or handshake randoms.
use crate::net::{Fate, Outage, ScriptedFate};
use crate::props::core::base_scn;
use crate::report::{Finding, Report};
use crate::scenario::*;
use crate::types::{Pred, Program};
use crate::wire::*;
use crate::world::{run_scn, Ev, ExecResult, RunOpt};
use serde_json::json;
use std::collections::{BTreeMap, HashSet};
use std::sync::atomic::{AtomicU64, Ordering};
use std::sync::Mutex;

/// Everything observable of one session, with events grouped per remote address.
fn observable(res: &ExecResult, ni: usize) -> Vec<String> {
    let n = &res.nodes[ni];
    let mut out = Vec::new();
    for c in &n.calls {
        out.push(format!("call round {} res {} adv {} save {} load {} cur {} conf {} ahead {}", c.round, c.res, c.n_adv, c.n_save, c.n_load, c.cur, c.conf, c.ahead));
    }
    for (f, fr) in n.sims.iter().enumerate() {
        out.push(format!("frame {f} vals {:?} stats {:?} hash {:x} sims {}", fr.vals, fr.stats, fr.hash_after, fr.count));
    }
    let mut per: BTreeMap<i32, Vec<String>> = BTreeMap::new();
    for (r, _, e) in &n.events {
        let key = e.addr().map(i32::from).unwrap_or(-1);
        // the round of an event is observable too (same clock readings, same packets)
        per.entry(key).or_default().push(format!("{r}:{e:?}"));
    }
    for (a, evs) in per {
        out.push(format!("events for {a}: {evs:?}"));
    }
    out.push(format!("conn {:?} crashed {:?}", n.conn, n.crashed));
    let _ = Ev::Wait { skip: 0 };
    out
}

fn scenarios(thorough: bool) -> Vec<Scenario> {
    let mut v = Vec::new();
    let topos: &[(&str, usize)] = if thorough { &[("2+1", 0), ("2+2", 0), ("1+1+1", 0), ("1+1+1+1", 0), ("2+1", 2), ("1+1+1", 2), ("2+2", 2), ("1+1+1+1", 2)] } else { &[("2+1", 0), ("1+1+1", 1), ("2+2", 0), ("1+1+1+1", 0), ("2+1", 1)] };
    for (tp, nspec) in topos {
        for sched in 0..3 {
            for (w, d, sparse, desync) in [(2usize, 0usize, false, 0u32), (8, 1, true, 3)] {
                if !thorough && (sched + w) % 2 == 1 && *nspec > 0 {
                    continue;
                }
                let mut s = base_scn("c17", tp, w, d, sparse, Pred::RepeatLast, Program::Changing, 1);
                for p in s.peers.iter_mut() {
                    p.desync = desync;
                }
                for k in 0..*nspec {
                    s.specs.push(SpecSpec::new(20 + k as u8, s.peers[0].addr));
                }
                let addrs: Vec<u8> = s.peers.iter().map(|p| p.addr).collect();
                match sched {
                    0 => {}
                    1 => {
                        // a rollback-heavy faulty schedule: scattered losses and delays on every link
                        for (i, a) in addrs.iter().enumerate() {
                            for (j, b) in addrs.iter().enumerate() {
                                if i != j {
                                    for r in [2 + i as i32, 5 + j as i32, 9, 13 + (i + j) as i32] {
                                        s.scripted.push(ScriptedFate { from: *a, to: *b, round: r, classes: CLASS_INPUT, fate: if (r + i as i32) % 2 == 0 { Fate::Drop } else { Fate::Delay(3) } });
                                    }
                                }
                            }
                        }
                    }
                    _ => {
                        s.outages.push(Outage { from: addrs[1], to: addrs[0], start: 3, len: 7, classes: CLASS_ALL });
                        s.outages.push(Outage { from: addrs[0], to: *addrs.last().unwrap(), start: 8, len: 5, classes: CLASS_INPUT });
                        s.peers[1].tick_every = 2;
                    }
                }
                s.name = format!("{} spectators={nspec} desync={desync} schedule={sched}", s.name);
                s.horizon = 24;
                s.probe = 30;
                s.checks = CK_CORE;
                // the same API calls include the checksums the game hands over: a game that
                // diverges identically in both runs must produce identical DesyncDetected streams
                if desync > 0 && s.peers.len() >= 3 {
                    let mut x = s.clone();
                    x.diverge = Some((0, 4));
                    x.checks = CK_C02 | CK_C03 | CK_C04;
                    x.name = format!("{} node 0 diverges from frame 4", x.name);
                    v.push(x);
                    let mut y = s.clone();
                    y.diverge = Some((1, 9));
                    y.peers.iter_mut().for_each(|p| p.desync = 1);
                    y.checks = CK_C02 | CK_C03 | CK_C04;
                    y.name = format!("{} node 1 diverges from frame 9 interval=1", y.name);
                    v.push(y);
                }
                if s.peers.iter().any(|p| p.locals.len() >= 2) && sched < 2 {
                    let mut z = s.clone();
                    let node = z.peers.iter().position(|p| p.locals.len() >= 2).unwrap();
                    let (h0, h1) = (z.peers[node].locals[0], z.peers[node].locals[1]);
                    z.script.push(ScriptItem { round: 0, node, action: Action::SetDelay { handle: h1, delay: 2 } });
                    z.script.push(ScriptItem { round: 9, node, action: Action::SetDelay { handle: h0, delay: 3 } });
                    z.script.push(ScriptItem { round: 15, node, action: Action::SetDelay { handle: h1, delay: 0 } });
                    z.checks = CK_C02 | CK_C04;
                    z.name = format!("{} local players get different delays (before the first frame and mid-run)", z.name);
                    v.push(z);
                }
                v.push(s);
            }
        }
    }
    // four peers, two of them drop at different frames; one survivor registers both drops early
    // (short timeouts) and reports them to the other (long timeouts, wide window, still
    // predicting for both) in one packet after an outage on their link
    for (d2, d3) in [(5, 8), (8, 5), (6, 7)] {
        for w in [16usize, 24] {
            let mut s = base_scn("c17-two-drops", "1+1+1+1", w, 0, false, Pred::RepeatLast, Program::Changing, 1);
            s.peers[0].notify_ms = 1000;
            s.peers[0].timeout_ms = 3000;
            s.peers[1].notify_ms = 50;
            s.peers[1].timeout_ms = 100;
            s.script.push(ScriptItem { round: d2, node: 2, action: Action::Die });
            s.script.push(ScriptItem { round: d3, node: 3, action: Action::Die });
            let (a, b) = (s.peers[0].addr, s.peers[1].addr);
            s.outages.push(Outage { from: b, to: a, start: d2.min(d3) + 3, len: 12, classes: CLASS_ALL });
            s.name = format!("{} deaths@{d2},{d3}", s.name);
            s.horizon = 30;
            s.probe = 30;
            s.checks = CK_C02 | CK_C04;
            v.push(s);
        }
    }
    // two peers die at different frames and the survivor's application is suspended across both
    // timeouts: the first poll afterwards finds both endpoints timed out, with different cut-offs
    for (d2, d3) in [(5, 9), (9, 5), (6, 7)] {
        for w in [16usize, 8] {
            for sparse in [false, true] {
                let mut s = base_scn("c17-two-timeouts-in-one-poll", "1+1+1", w, 0, sparse, Pred::RepeatLast, Program::Changing, 1);
                for p in s.peers.iter_mut() {
                    p.notify_ms = 100;
                    p.timeout_ms = 300;
                }
                s.script.push(ScriptItem { round: d2, node: 1, action: Action::Die });
                s.script.push(ScriptItem { round: d3, node: 2, action: Action::Die });
                for r in 12..45 {
                    s.scripted_stalls.push((0, r));
                }
                s.name = format!("{} deaths@{d2},{d3} survivor suspended rounds 12..45", s.name);
                s.horizon = 50;
                s.probe = 40;
                s.checks = CK_C02 | CK_C04;
                v.push(s);
            }
        }
    }
    // one session ahead of several remotes by different amounts (frames_ahead() and the wait
    // recommendations are a maximum over the remote endpoints)
    for (tp, lags) in [("1+1+1", vec![(1usize, 4i32), (2, 9)]), ("1+1+1", vec![(1, 10), (2, 3)]), ("1+1+1+1", vec![(1, 3), (2, 7), (3, 12)])] {
        let mut s = base_scn("c17-leads", tp, 16, 0, false, Pred::RepeatLast, Program::Changing, 1);
        for (node, lag) in &lags {
            for r in 0..*lag {
                s.scripted_stalls.push((*node, 2 + r));
            }
        }
        s.name = format!("{} lags={lags:?}", s.name);
        s.horizon = 30;
        s.probe = 260;
        s.checks = CK_C02;
        v.push(s);
    }
    // handshakes with many outstanding requests: the replies to the first `held` requests of one
    // peer are held back and handed over together after `silence` rounds in which every other
    // reply was lost (a retry every 200 ms = 12 rounds); which of the old requests still count
    // must not depend on anything but the packets
    for (tp, nspec) in [("1+1", 0usize), ("1+1+1", 0), ("1+1", 1)] {
        for held in [2i32, 4, 7] {
            for silence in [60i32, 130, 250, 420] {
                if !thorough && (silence == 130 || held == 7 && silence != 250) {
                    continue;
                }
                let mut s = base_scn("c17-handshake", tp, 8, 0, false, Pred::RepeatLast, Program::Changing, 1);
                for k in 0..nspec {
                    s.specs.push(SpecSpec::new(20 + k as u8, s.peers[0].addr));
                }
                for p in s.peers.iter_mut() {
                    p.timeout_ms = 60_000;
                    p.notify_ms = 30_000;
                }
                s.handshake_phase = true;
                let (a, b) = (s.peers[0].addr, s.peers[1].addr);
                let hold_until = 12 * held - 6;
                for r in 0..hold_until {
                    s.scripted.push(ScriptedFate { from: b, to: a, round: r, classes: 1 << K_SYNC_REP, fate: Fate::Delay(silence + 5 - r) });
                }
                s.outages.push(Outage { from: b, to: a, start: hold_until, len: silence - hold_until, classes: 1 << K_SYNC_REP });
                if nspec > 0 {
                    // the same on the spectator's replies to its host
                    for r in 0..hold_until {
                        s.scripted.push(ScriptedFate { from: 20, to: a, round: r, classes: 1 << K_SYNC_REP, fate: Fate::Delay(silence + 5 - r) });
                    }
                    s.outages.push(Outage { from: 20, to: a, start: hold_until, len: silence - hold_until, classes: 1 << K_SYNC_REP });
                }
                s.name = format!("{} spectators={nspec} replies to the first {held} requests held for {silence} rounds", s.name);
                s.horizon = silence + 8;
                s.probe = 60;
                s.max_sync_rounds = silence + 200;
                s.checks = CK_C02;
                v.push(s);
            }
        }
    }
    v
}

pub fn c17() -> i32 {
    let mut rep = Report::new("C17", "model_checking");
    let t = rep.thorough();
    rep.rule = "grid: scenarios (topologies with several local players / three or more peers, with and without spectators, fault-free and two faulty fixed schedules) x hash seeds enumerated until every iteration order of every registry map (and as many order tuples as the seed budget reaches) has occurred x rng seeds; each run compared with the run under the first seed; non-trivial = run under a seed that produced a new tuple of iteration orders; distinct = distinct order tuples".to_owned();
    rep.assumptions = vec!["the simulated network hands packets over in canonical (due round, source, sequence) order, so the premise 'same packets in the same order' holds whatever order the peers sent in".into(), "deterministic game (a genuinely desynchronised game is outside the statement)".into()];
    let scns = scenarios(t);
    crate::explore::audit_scenarios(&scns, Some(0), false);
    let seed_budget: u64 = if t { 2000 } else { 300 };
    let seed_cap: u64 = if t { 60_000 } else { 4000 };
    let rng_seeds: Vec<u64> = if t { vec![7, 1, 2, 3] } else { vec![7, 2] };
    let next = AtomicU64::new(0);
    let findings: Mutex<Vec<Finding>> = Mutex::new(Vec::new());
    let agg: Mutex<(u64, HashSet<String>, Vec<serde_json::Value>, bool)> = Mutex::new((0, HashSet::new(), Vec::new(), true));
    std::thread::scope(|sc| {
        for _ in 0..16 {
            sc.spawn(|| loop {
                let i = next.fetch_add(1, Ordering::Relaxed) as usize;
                if i >= scns.len() {
                    break;
                }
                let base = &scns[i];
                let mut reference: Option<Vec<Vec<String>>> = None;
                let mut tuples: HashSet<String> = HashSet::new();
                let mut per_map: Vec<HashSet<String>> = Vec::new();
                let mut map_keys: Vec<usize> = Vec::new();
                let mut runs = 0u64;
                let mut reported = false;
                let mut hs = 0u64;
                loop {
                    hs += 1;
                    // at least the budget; beyond it only until every map has seen every order
                    if hs > seed_budget {
                        let done = !per_map.is_empty() && per_map.iter().zip(map_keys.iter()).all(|(seen, k)| seen.len() >= (1..=*k).product::<usize>().max(1));
                        if done || hs > seed_cap {
                            break;
                        }
                    }
                    for &rs in &rng_seeds {
                        // vary the rng seed only on a subset of hash seeds
                        if rs != rng_seeds[0] && hs % 16 != 1 {
                            continue;
                        }
                        let mut s = base.clone();
                        s.hash_seed = hs;
                        s.rng_seed = rs;
                        let res = run_scn(&s, &Vec::new(), &RunOpt::default());
                        runs += 1;
                        let orders: Vec<Vec<Vec<String>>> = res.nodes.iter().map(|n| n.iter_orders.clone()).collect();
                        if map_keys.is_empty() {
                            map_keys = orders.iter().flat_map(|n| n.iter().map(Vec::len)).collect();
                        }
                        tuples.insert(format!("{orders:?}"));
                        let mut k = 0;
                        for n in &orders {
                            for m in n {
                                if per_map.len() <= k {
                                    per_map.push(HashSet::new());
                                }
                                per_map[k].insert(format!("{m:?}"));
                                k += 1;
                            }
                        }
                        let obs: Vec<Vec<String>> = (0..res.nodes.len()).map(|n| observable(&res, n)).collect();
                        match &reference {
                            None => reference = Some(obs),
                            Some(r) => {
                                if *r != obs && !reported {
                                    reported = true;
                                    let mut detail = String::new();
                                    for (n, (a, b)) in r.iter().zip(obs.iter()).enumerate() {
                                        if let Some((x, y)) = a.iter().zip(b.iter()).find(|(x, y)| x != y) {
                                            detail = format!("session {n}: hash seed 1 / rng seed {}: [{x}]; hash seed {hs} / rng seed {rs}: [{y}]; iteration orders now {:?}", rng_seeds[0], orders[n]);
                                            break;
                                        }
                                    }
                                    let mut sc2 = s.clone();
                                    sc2.name = format!("{} hash_seed={hs} rng_seed={rs}", base.name);
                                    findings.lock().unwrap().push(Finding {
                                        prop: "C17".into(),
                                        kind: "behaviour-depends-on-hash-order-or-randoms".into(),
                                        detail,
                                        class: "c17".into(),
                                        replay: json!({"engine": "hashorder", "scenario": sc2, "reference_hash_seed": 1, "reference_rng_seed": rng_seeds[0]}),
                                    });
                                }
                            }
                        }
                    }
                }
                // completeness of each individual map: n! orders for n keys
                let mut complete = true;
                let mut map_report = Vec::new();
                let probe = run_scn(base, &Vec::new(), &RunOpt::default());
                let mut k = 0;
                for n in &probe.nodes {
                    for m in &n.iter_orders {
                        let fact: usize = (1..=m.len()).product();
                        let seen = per_map.get(k).map(HashSet::len).unwrap_or(0);
                        if seen < fact.max(1) {
                            complete = false;
                        }
                        map_report.push(json!({"keys": m.len(), "orders_possible": fact.max(1), "orders_seen": seen}));
                        k += 1;
                    }
                }
                let mut g = agg.lock().unwrap();
                g.0 += runs;
                for t in &tuples {
                    g.1.insert(format!("{i}:{t}"));
                }
                if g.2.len() < 40 {
                    g.2.push(json!({"scenario": base.name, "runs": runs, "distinct_order_tuples": tuples.len(), "per_map": map_report, "every_map_saw_every_order": complete}));
                }
                if !complete {
                    g.3 = false;
                }
            });
        }
    });
    for f in findings.into_inner().unwrap() {
        rep.add_finding(f);
    }
    let g = agg.into_inner().unwrap();
    rep.evaluations = g.0;
    for t in &g.1 {
        let mut h = 0xcbf2_9ce4_8422_2325u64;
        crate::types::fnv(&mut h, t.as_bytes());
        rep.nontrivial.insert(h);
        rep.fingerprints.insert(h);
    }
    rep.states = g.1.len() as u64;
    rep.transitions = g.0 * 54;
    rep.exhaustive = g.3;
    rep.samples = g.2.iter().take(4).cloned().collect();
    rep.parts.push(json!({"part": "scenarios x hash seeds x rng seeds", "scenarios": scns.len(), "hash_seeds_per_scenario_at_least": seed_budget, "hash_seed_cap": seed_cap, "rng_seeds": rng_seeds, "runs": g.0, "distinct_iteration_order_tuples": g.1.len(), "every_registry_map_saw_every_order": g.3, "per_scenario": g.2}));
    if !g.3 {
        rep.coverage.insert("note".into(), json!("some registry map did not take every iteration order within the seed budget; exhaustive=false refers to that"));
    }
    rep.finish()
}
