//! C13: SyncTestSession over the whole builder grid, deterministic and nondeterministic games.
use crate::report::{Finding, Report};
use crate::types::*;
use ggrs::{GgrsError, GgrsRequest, InputStatus, SessionBuilder};
use serde::{Deserialize, Serialize};
use serde_json::json;
use std::panic::{catch_unwind, AssertUnwindSafe};
use std::sync::Mutex;

#[derive(Clone, Debug, Serialize, Deserialize)]
pub struct StCase {
    pub players: usize,
    pub cd: usize,
    pub w: usize,
    pub d: usize,
    pub sparse: bool,
    pub program: Program,
    pub frames: i32,
    /// (g, n): the n-th simulation (0-based) of frame g perturbs the hash
    pub nondet: Option<(i32, u32)>,
    /// index (0..24) of the order in which the four builder setters are called; the resulting
    /// session must not depend on it
    #[serde(default)]
    pub order: u8,
    /// every input is handed over twice per tick, a wrong value first (documented: the later
    /// call overwrites the earlier one)
    #[serde(default)]
    pub double_input: bool,
}

/// The `k`-th permutation of 0..4 (lexicographic).
fn perm4(k: u8) -> [usize; 4] {
    let mut items = vec![0usize, 1, 2, 3];
    let mut k = k as usize % 24;
    let mut out = [0usize; 4];
    for (i, f) in [6usize, 2, 1, 1].iter().enumerate() {
        let idx = k / f;
        k %= f;
        out[i] = items.remove(idx);
    }
    out
}

#[derive(Debug, Default)]
pub struct StResult {
    pub rejected: bool,
    pub viol: Vec<(String, String, String)>,
    pub first_mismatch_call: Option<(i32, Vec<i32>)>,
    pub perturb_call: Option<i32>,
    pub fingerprint: u64,
    pub rollbacks: u64,
    pub calls: i32,
}

pub fn run_case(c: &StCase) -> StResult {
    ggrs::verif_hooks::reset(1_000_000, 7, 1);
    let mut r = StResult::default();
    let built = catch_unwind(AssertUnwindSafe(|| -> Result<_, GgrsError> {
        let mut b = SessionBuilder::<CfgR>::new().with_num_players(c.players)?;
        for setter in perm4(c.order) {
            b = match setter {
                0 => b.with_max_prediction_window(c.w),
                1 => b.with_check_distance(c.cd),
                2 => b.with_input_delay(c.d),
                _ => b.with_sparse_saving_mode(c.sparse),
            };
        }
        b.start_synctest_session()
    }));
    let mut sess = match built {
        Err(p) => {
            r.viol.push(("C13".into(), "panic".into(), format!("builder panicked: {}", crate::world::panic_msg(p))));
            return r;
        }
        Ok(Err(_)) => {
            r.rejected = true;
            return r;
        }
        Ok(Ok(s)) => s,
    };
    let valid = c.cd < c.w && !c.sparse;
    if !valid {
        r.viol.push(("C13".into(), "invalid-config-accepted".into(), format!("start_synctest_session accepted check distance {} with window {} sparse={}", c.cd, c.w, c.sparse)));
        return r;
    }
    let mut game = GameSt { frame: 0, hash: INITIAL_HASH };
    let mut sim_count: Vec<u32> = Vec::new();
    let mut fp = 0xcbf2_9ce4_8422_2325u64;
    for call in 0..c.frames {
        let f = sess.current_frame();
        let res = catch_unwind(AssertUnwindSafe(|| {
            for p in 0..c.players {
                if c.double_input {
                    sess.add_local_input(p, c.program.value(p, f) ^ 0x5A).expect("add_local_input");
                }
                sess.add_local_input(p, c.program.value(p, f)).expect("add_local_input");
            }
            sess.advance_frame()
        }));
        r.calls = call + 1;
        match res {
            Err(p) => {
                r.viol.push(("C13".into(), "panic".into(), format!("advance_frame panicked at call {call}: {}", crate::world::panic_msg(p))));
                break;
            }
            Ok(Err(GgrsError::MismatchedChecksum { current_frame, mismatched_frames })) => {
                fnv(&mut fp, &[5]);
                if r.first_mismatch_call.is_none() {
                    r.first_mismatch_call = Some((call, mismatched_frames.clone()));
                }
                if c.nondet.is_none() {
                    r.viol.push(("C13".into(), "false-mismatch".into(), format!("deterministic game: MismatchedChecksum at call {call} (frame {current_frame}) naming {mismatched_frames:?}")));
                }
                break;
            }
            Ok(Err(e)) => {
                r.viol.push(("C13".into(), "unexpected-error".into(), format!("advance_frame returned {e} at call {call}")));
                break;
            }
            Ok(Ok(reqs)) => {
                let start = game.frame;
                let mut n_adv = 0;
                for rq in reqs {
                    match rq {
                        GgrsRequest::SaveGameState { cell, frame } => {
                            fnv(&mut fp, &[1]);
                            if frame != game.frame {
                                r.viol.push(("C02".into(), "save-wrong-frame".into(), format!("synctest: SaveGameState{{{frame}}} with the game at {}", game.frame)));
                            }
                            cell.save(frame, Some(game), Some(u128::from(game.hash)));
                        }
                        GgrsRequest::LoadGameState { cell, frame } => {
                            fnv(&mut fp, &[2]);
                            r.rollbacks += 1;
                            if frame >= game.frame || game.frame - frame > c.w as i32 {
                                r.viol.push(("C02".into(), "load-not-earlier".into(), format!("synctest: LoadGameState{{{frame}}} with the game at {} (window {})", game.frame, c.w)));
                            }
                            match cell.load() {
                                Some(st) if st.frame == frame => game = st,
                                Some(st) => {
                                    r.viol.push(("C02".into(), "load-cell-frame".into(), format!("synctest: LoadGameState{{{frame}}} but the cell holds frame {}", st.frame)));
                                    game = st;
                                }
                                None => r.viol.push(("C02".into(), "load-empty-cell".into(), format!("synctest: LoadGameState{{{frame}}}: empty cell"))),
                            }
                        }
                        GgrsRequest::AdvanceFrame { inputs } => {
                            fnv(&mut fp, &[3]);
                            n_adv += 1;
                            let fr = game.frame;
                            for (p, (v, s)) in inputs.iter().enumerate() {
                                let t = if fr < c.d as i32 { 0 } else { c.program.value(p, fr - c.d as i32) };
                                if *s != InputStatus::Confirmed || *v != t {
                                    r.viol.push(("C13".into(), "wrong-input".into(), format!("frame {fr} player {p}: got ({v},{s:?}), expected ({t},Confirmed)")));
                                }
                                fnv(&mut fp, &[*v]);
                            }
                            if inputs.len() != c.players {
                                r.viol.push(("C13".into(), "arity".into(), format!("frame {fr}: {} inputs for {} players", inputs.len(), c.players)));
                            }
                            while sim_count.len() <= fr as usize {
                                sim_count.push(0);
                            }
                            let n = sim_count[fr as usize];
                            sim_count[fr as usize] += 1;
                            game = game_step(game, &inputs);
                            if c.nondet == Some((fr, n)) {
                                game.hash = mix(game.hash, 0xBAD);
                                r.perturb_call = Some(call);
                            }
                        }
                    }
                }
                if game.frame != sess.current_frame() || game.frame != start + 1 || n_adv == 0 {
                    r.viol.push(("C02".into(), "frame-mismatch-after-call".into(), format!("synctest call {call}: game went {start} -> {}, current_frame() = {}", game.frame, sess.current_frame())));
                }
            }
        }
        if r.viol.len() > 4 {
            break;
        }
    }
    r.fingerprint = fp;
    r
}

fn grid(thorough: bool) -> Vec<StCase> {
    let mut v = Vec::new();
    let players: Vec<usize> = if thorough { vec![1, 2, 3, 4] } else { vec![1, 2] };
    let delays: Vec<usize> = if thorough { vec![0, 1, 2, 3, 4] } else { vec![0, 2] };
    for &players in &players {
        for cd in 0..=9usize {
            for w in 0..=10usize {
                for &d in &delays {
                    for sparse in [false, true] {
                        for program in [Program::Changing, Program::Runs, Program::Constant] {
                            v.push(StCase { players, cd, w, d, sparse, program, frames: 60, nondet: None, order: 0, double_input: false });
                            if program == Program::Changing && (cd + w + d) % 3 == 0 {
                                v.push(StCase { players, cd, w, d, sparse, program, frames: 60, nondet: None, order: 0, double_input: true });
                            }
                            // every other order of the four setters (one input program suffices)
                            if program == Program::Constant && (thorough || d == 0) {
                                for order in 1..24u8 {
                                    v.push(StCase { players, cd, w, d, sparse, program, frames: 60, nondet: None, order, double_input: false });
                                }
                            }
                        }
                    }
                }
            }
        }
    }
    v
}

fn par_map<T: Sync, R: Send>(items: &[T], f: impl Fn(&T) -> R + Sync) -> Vec<R> {
    let next = std::sync::atomic::AtomicUsize::new(0);
    let out: Mutex<Vec<(usize, R)>> = Mutex::new(Vec::with_capacity(items.len()));
    std::thread::scope(|s| {
        for _ in 0..16 {
            s.spawn(|| loop {
                let i = next.fetch_add(1, std::sync::atomic::Ordering::Relaxed);
                if i >= items.len() {
                    break;
                }
                let r = f(&items[i]);
                out.lock().unwrap().push((i, r));
            });
        }
    });
    let mut v = out.into_inner().unwrap();
    v.sort_by_key(|x| x.0);
    v.into_iter().map(|x| x.1).collect()
}

fn finding(prop: &str, kind: &str, detail: &str, class: &str, case: &StCase) -> Finding {
    Finding {
        prop: prop.to_owned(),
        kind: kind.to_owned(),
        detail: detail.to_owned(),
        class: class.to_owned(),
        replay: json!({"engine": "synctest", "case": case}),
    }
}

/// The synctest half of C02: request lists of deterministic runs obey the contract.
pub fn contract_part(rep: &mut Report, props: &[&str]) {
    let cases = grid(rep.thorough());
    let res = par_map(&cases, run_case);
    let mut n = 0u64;
    let mut fps = std::collections::HashSet::new();
    for (c, r) in cases.iter().zip(res.iter()) {
        if r.rejected {
            continue;
        }
        n += 1;
        fps.insert(r.fingerprint);
        for (p, k, d) in &r.viol {
            if props.contains(&p.as_str()) || p == "C13" && k == "panic" {
                rep.add_finding(finding("C02", k, d, "synctest", c));
            }
        }
    }
    rep.evaluations += n;
    rep.fingerprints.extend(fps.iter().copied());
    rep.nontrivial.extend(fps.iter().copied());
    rep.parts.push(json!({"part": "T: SyncTestSession request lists over the builder grid (deterministic game)", "executions": n, "distinct_trace_fingerprints": fps.len()}));
}

pub fn c13() -> i32 {
    let mut rep = Report::new("C13", "model_checking");
    let thorough = rep.thorough();
    rep.rule = "grid enumeration: every builder configuration (players x check distance x window x delay x sparse x input program) is run for 60 frames with a deterministic game; every valid configuration with check distance >= 2 is additionally run with a game that perturbs its state in the n-th simulation of frame g, for every g in 0..30 and every n in 0..=check distance; non-trivial = run accepted by the builder; distinct = distinct request/input trace fingerprints".to_owned();
    rep.assumptions = vec!["the harness game is deterministic except for the one injected perturbation".into(), "60 frames per run".into()];
    let cases = grid(thorough);
    let res = par_map(&cases, run_case);
    let mut accepted = 0u64;
    let mut rejected = 0u64;
    let mut rollbacks = 0u64;
    for (c, r) in cases.iter().zip(res.iter()) {
        let valid = c.cd < c.w && !c.sparse;
        if r.rejected {
            rejected += 1;
            if valid {
                rep.add_finding(finding("C13", "valid-config-rejected", &format!("start_synctest_session rejected {c:?}"), "synctest-det", c));
            }
            continue;
        }
        accepted += 1;
        rollbacks += r.rollbacks;
        rep.fingerprints.insert(r.fingerprint);
        rep.nontrivial.insert(r.fingerprint);
        for (p, k, d) in &r.viol {
            let _ = p;
            rep.add_finding(finding("C13", k, d, "synctest-det", c));
        }
        if rep.samples.len() < 2 {
            rep.samples.push(json!({"case": c, "calls": r.calls, "rollbacks": r.rollbacks}));
        }
    }
    // the order of the builder's setters must not matter: same verdict and same trace as order 0
    {
        let mut base: std::collections::HashMap<(usize, usize, usize, usize, bool, u8), (bool, u64)> = std::collections::HashMap::new();
        let pk = |p: Program| match p { Program::Changing => 0u8, Program::Runs => 1, Program::Sparse => 2, Program::Constant => 3 };
        for (c, r) in cases.iter().zip(res.iter()) {
            if c.order == 0 {
                base.insert((c.players, c.cd, c.w, c.d, c.sparse, pk(c.program)), (r.rejected, r.fingerprint));
            }
        }
        for (c, r) in cases.iter().zip(res.iter()) {
            if c.order != 0 {
                if let Some(&(rej, fp)) = base.get(&(c.players, c.cd, c.w, c.d, c.sparse, pk(c.program))) {
                    if rej != r.rejected || (!rej && fp != r.fingerprint) {
                        rep.add_finding(finding("C13", "setter-order-matters", &format!("setter order {:?} (0=window 1=check distance 2=delay 3=sparse): rejected={} trace {:x}; in the order 0,1,2,3: rejected={rej} trace {fp:x}", perm4(c.order), r.rejected, r.fingerprint), "synctest-det", c));
                    }
                }
            }
        }
    }
    rep.evaluations += cases.len() as u64;
    rep.parts.push(json!({"part": "deterministic game over the builder grid (every configuration; with the constant input program also in all 24 orders of the four setters)", "grid_points": cases.len(), "accepted_and_run": accepted, "rejected_by_builder": rejected, "rollbacks": rollbacks}));

    // nondeterministic programs
    let mut nd: Vec<StCase> = Vec::new();
    for c in &cases {
        let valid = c.cd < c.w && !c.sparse;
        if !valid || c.cd < 2 || c.program != Program::Changing {
            continue;
        }
        if !thorough && (c.players > 2 || c.w > c.cd + 2 && c.w != 10) {
            continue;
        }
        if thorough && c.players > 2 && c.d > 2 {
            continue;
        }
        for g in 0..30 {
            for n in 0..=c.cd as u32 {
                let mut x = c.clone();
                x.nondet = Some((g, n));
                nd.push(x);
            }
        }
    }
    let res = par_map(&nd, run_case);
    let mut detected = 0u64;
    let mut ndfps = std::collections::HashSet::new();
    for (c, r) in nd.iter().zip(res.iter()) {
        let (g, n) = c.nondet.unwrap();
        for (_, k, d) in &r.viol {
            rep.add_finding(finding("C13", k, d, "synctest-nondet", c));
        }
        ndfps.insert((r.first_mismatch_call.clone().map(|x| x.0 - r.perturb_call.unwrap_or(0)), n, g.min(c.cd as i32 + 1)));
        // the premise "the result differs between simulations of that frame" needs at least two
        // simulations of frame g: frame g is simulated min(g, cd) + 1 times (frame 0 only once)
        if (g as usize).min(c.cd) + 1 < 2 {
            continue;
        }
        let Some(pc) = r.perturb_call else {
            // the n-th simulation of g never happened (n > number of re-simulations for small g)
            continue;
        };
        match &r.first_mismatch_call {
            None => rep.add_finding(finding(
                "C13",
                "nondeterminism-missed",
                &format!("the game deviates in simulation #{n} of frame {g} (check distance {}, call {pc}) and no MismatchedChecksum is ever reported (first-simulation={})", c.cd, n == 0),
                if n == 0 { "synctest-nondet-first-sim" } else { "synctest-nondet" },
                c,
            )),
            Some((call, frames)) => {
                detected += 1;
                if *call > pc + c.cd as i32 + 2 {
                    rep.add_finding(finding("C13", "nondeterminism-late", &format!("deviation in simulation #{n} of frame {g} at call {pc} reported only at call {call} (check distance {})", c.cd), "synctest-nondet", c));
                }
                if frames.iter().min() != Some(&(g + 1)) {
                    rep.add_finding(finding("C13", "wrong-frame-named", &format!("deviation in simulation #{n} of frame {g}: mismatched_frames = {frames:?}, first affected saved state is frame {}", g + 1), "synctest-nondet", c));
                }
            }
        }
        if rep.samples.len() < 5 && n == 1 {
            rep.samples.push(json!({"case": c, "perturbing_call": pc, "first_mismatch": r.first_mismatch_call}));
        }
    }
    rep.evaluations += nd.len() as u64;
    rep.states = rep.fingerprints.len() as u64 + ndfps.len() as u64;
    rep.transitions = rep.evaluations * 60;
    rep.parts.push(json!({"part": "nondeterministic game: every (g, n) placement", "runs": nd.len(), "detected": detected, "distinct_outcome_classes": ndfps.len()}));
    rep.finish()
}
