//! C16: invalid configurations and API misuse are rejected with errors, never panics.
use crate::explore::{explore, ExploreCfg};
use crate::net::{SimNet, SimSocket};
use crate::props::core::base_scn;
use crate::report::{Finding, Report};
use crate::scenario::*;
use crate::types::*;
use crate::world::{run_scn, ExecResult, RunOpt, Violation, R_INVALID, R_NOT_SYNC, R_OK};
use ggrs::{DesyncDetection, GgrsError, PlayerType, SessionBuilder};
use serde::{Deserialize, Serialize};
use serde_json::json;
use std::cell::RefCell;
use std::collections::{BTreeMap, HashSet};
use std::panic::{catch_unwind, AssertUnwindSafe};
use std::rc::Rc;
use std::sync::atomic::{AtomicU64, Ordering};
use std::sync::Mutex;
use std::time::Duration;

#[derive(Clone, Copy, Debug, PartialEq, Eq, Serialize, Deserialize)]
pub enum Call {
    NumPlayers(usize),
    AddLocal(usize),
    AddRemote(u8, usize),
    AddSpectator(u8, usize),
    Window(usize),
    Delay(usize),
    CheckDist(usize),
    Sparse,
    Desync(Option<u32>),
    Fps(usize),
    MaxBehind(usize),
    Catchup(usize),
}

pub fn alphabet() -> Vec<Call> {
    let mut a = Vec::new();
    for n in [0, 1, 2, 3] {
        a.push(Call::NumPlayers(n));
    }
    for h in 0..=4 {
        a.push(Call::AddLocal(h));
        a.push(Call::AddRemote(10, h));
        a.push(Call::AddRemote(11, h));
        a.push(Call::AddSpectator(20, h));
    }
    for w in [0, 1, 2, 8] {
        a.push(Call::Window(w));
    }
    for d in [0, 2, 16] {
        a.push(Call::Delay(d));
    }
    for c in [0, 1, 2, 8] {
        a.push(Call::CheckDist(c));
    }
    a.push(Call::Sparse);
    a.push(Call::Desync(None));
    a.push(Call::Desync(Some(0)));
    a.push(Call::Desync(Some(1)));
    for f in [0, 60] {
        a.push(Call::Fps(f));
    }
    for m in [0, 1, 59, 60] {
        a.push(Call::MaxBehind(m));
    }
    for c in [0, 1, 3] {
        a.push(Call::Catchup(c));
    }
    a
}

/// The reference model: a plain struct holding the documented validity rules.
#[derive(Clone, Debug)]
struct Model {
    n: usize,
    handles: BTreeMap<usize, u8>, // 0 local, 1 remote, 2 spectator
    window: usize,
    cd: usize,
    sparse: bool,
    desync: Option<u32>,
}

impl Model {
    fn new() -> Self {
        Self { n: 2, handles: BTreeMap::new(), window: 8, cd: 2, sparse: false, desync: None }
    }
    fn handle_ok(kind: u8, h: usize, n: usize) -> bool {
        if kind == 2 {
            h >= n
        } else {
            h < n
        }
    }
    /// true = the call must succeed
    fn apply(&mut self, c: Call) -> bool {
        match c {
            Call::NumPlayers(n) => {
                if n == 0 || self.handles.iter().any(|(h, k)| !Self::handle_ok(*k, *h, n)) {
                    return false;
                }
                self.n = n;
                true
            }
            Call::AddLocal(h) | Call::AddRemote(_, h) | Call::AddSpectator(_, h) => {
                let k = match c {
                    Call::AddLocal(_) => 0,
                    Call::AddRemote(..) => 1,
                    _ => 2,
                };
                if self.handles.contains_key(&h) || !Self::handle_ok(k, h, self.n) {
                    return false;
                }
                self.handles.insert(h, k);
                true
            }
            Call::Window(w) => {
                self.window = w;
                true
            }
            Call::Delay(_) => true,
            Call::CheckDist(c) => {
                self.cd = c;
                true
            }
            Call::Sparse => {
                self.sparse = true;
                true
            }
            Call::Desync(d) => {
                self.desync = d;
                true
            }
            Call::Fps(f) => f >= 1,
            Call::MaxBehind(m) => (1..60).contains(&m),
            Call::Catchup(c) => c >= 1,
        }
    }
    fn p2p_ok(&self) -> bool {
        self.desync != Some(0) && (0..self.n).all(|h| self.handles.contains_key(&h))
    }
    fn synctest_ok(&self) -> bool {
        self.cd < self.window && !self.sparse
    }
}

type B = SessionBuilder<CfgR>;

fn apply_real(b: B, c: Call) -> Result<B, GgrsError> {
    match c {
        Call::NumPlayers(n) => b.with_num_players(n),
        Call::AddLocal(h) => b.add_player(PlayerType::Local, h),
        Call::AddRemote(a, h) => b.add_player(PlayerType::Remote(a), h),
        Call::AddSpectator(a, h) => b.add_player(PlayerType::Spectator(a), h),
        Call::Window(w) => Ok(b.with_max_prediction_window(w)),
        Call::Delay(d) => Ok(b.with_input_delay(d)),
        Call::CheckDist(c) => Ok(b.with_check_distance(c)),
        Call::Sparse => Ok(b.with_sparse_saving_mode(true)),
        Call::Desync(None) => Ok(b.with_desync_detection_mode(DesyncDetection::Off)),
        Call::Desync(Some(i)) => Ok(b.with_desync_detection_mode(DesyncDetection::On { interval: i })),
        Call::Fps(f) => b.with_fps(f),
        Call::MaxBehind(m) => b.with_max_frames_behind(m),
        Call::Catchup(c) => b.with_catchup_speed(c),
    }
}

/// Runs one sequence followed by one start call (0 p2p, 1 spectator, 2 synctest).
/// Returns Err(description) on a disagreement with the model or a panic.
pub fn run_sequence(seq: &[Call], start: u8) -> Result<(bool, u64), (String, String)> {
    ggrs::verif_hooks::reset(1_000_000, 7, 1);
    let mut model = Model::new();
    let mut b = B::new();
    for (i, c) in seq.iter().enumerate() {
        let want_ok = model.clone().apply(*c);
        let r = catch_unwind(AssertUnwindSafe(|| apply_real(b, *c)));
        match r {
            Err(p) => return Err(("builder-panic".into(), format!("call #{i} {c:?} panicked: {}", crate::world::panic_msg(p)))),
            Ok(Ok(nb)) => {
                if !want_ok {
                    return Err(("invalid-call-accepted".into(), format!("call #{i} {c:?} succeeded; the documented rules reject it (state before: {model:?})")));
                }
                model.apply(*c);
                b = nb;
            }
            Ok(Err(e)) => {
                if want_ok {
                    return Err(("valid-call-rejected".into(), format!("call #{i} {c:?} failed with {e}; the documented rules accept it (state before: {model:?})")));
                }
                if !matches!(e, GgrsError::InvalidRequest { .. }) {
                    return Err(("wrong-error-variant".into(), format!("call #{i} {c:?} failed with {e:?}, expected InvalidRequest")));
                }
                return Ok((false, i as u64 + 1));
            }
        }
    }
    // start call
    let net = Rc::new(RefCell::new(SimNet::new(1, crate::chooser::Chooser::new(Vec::new(), 0))));
    let sock = SimSocket { addr: 1, net: net.clone() };
    match start {
        0 => {
            let want = model.p2p_ok();
            let r = catch_unwind(AssertUnwindSafe(|| b.start_p2p_session(sock)));
            match r {
                Err(p) => Err(("builder-panic".into(), format!("start_p2p_session panicked: {}", crate::world::panic_msg(p)))),
                Ok(Err(e)) => {
                    if want {
                        Err(("valid-config-rejected".into(), format!("start_p2p_session failed with {e}; model state {model:?}")))
                    } else if !matches!(e, GgrsError::InvalidRequest { .. }) {
                        Err(("wrong-error-variant".into(), format!("start_p2p_session failed with {e:?}")))
                    } else {
                        Ok((false, seq.len() as u64 + 1))
                    }
                }
                Ok(Ok(mut s)) => {
                    if !want {
                        return Err(("invalid-config-accepted".into(), format!("start_p2p_session succeeded; model state {model:?}")));
                    }
                    // the returned session can be polled and advanced without panicking
                    let locals: Vec<usize> = model.handles.iter().filter(|(_, k)| **k == 0).map(|(h, _)| *h).collect();
                    let all_local = model.handles.values().all(|k| *k == 0);
                    let r = catch_unwind(AssertUnwindSafe(|| {
                        let mut adv = 0;
                        for i in 0..24 {
                            ggrs::verif_hooks::advance_us(16_667);
                            s.poll_remote_clients();
                            for h in &locals {
                                s.add_local_input(*h, (i % 5) as u8 + 1).expect("add_local_input for a local handle");
                            }
                            match s.advance_frame() {
                                Ok(reqs) => {
                                    for rq in reqs {
                                        match rq {
                                            ggrs::GgrsRequest::SaveGameState { cell, frame } => cell.save(frame, Some(GameSt { frame, hash: 0 }), Some(0)),
                                            ggrs::GgrsRequest::LoadGameState { .. } => {}
                                            ggrs::GgrsRequest::AdvanceFrame { .. } => adv += 1,
                                        }
                                    }
                                }
                                Err(GgrsError::NotSynchronized) => {}
                                Err(e) => return Err(format!("advance_frame returned {e}")),
                            }
                            let _ = s.events().count();
                        }
                        Ok(adv)
                    }));
                    match r {
                        Err(p) => Err(("accepted-session-panics".into(), format!("the P2P session returned for {model:?} panicked when driven: {}", crate::world::panic_msg(p)))),
                        Ok(Err(e)) => Err(("accepted-session-errors".into(), format!("the P2P session returned for {model:?}: {e}"))),
                        Ok(Ok(adv)) => {
                            if all_local && adv == 0 && model.window > 0 {
                                return Err(("accepted-session-stuck".into(), format!("an all-local session ({model:?}) never advanced in 24 calls")));
                            }
                            Ok((true, seq.len() as u64 + 1))
                        }
                    }
                }
            }
        }
        1 => {
            let r = catch_unwind(AssertUnwindSafe(|| {
                let mut s = b.start_spectator_session(10, sock);
                for _ in 0..24 {
                    ggrs::verif_hooks::advance_us(16_667);
                    s.poll_remote_clients();
                    match s.advance_frame() {
                        Ok(_) | Err(GgrsError::NotSynchronized) | Err(GgrsError::PredictionThreshold) => {}
                        Err(e) => return Err(format!("{e}")),
                    }
                    let _ = s.events().count();
                }
                Ok(())
            }));
            match r {
                Err(p) => Err(("accepted-session-panics".into(), format!("the spectator session for {model:?} panicked: {}", crate::world::panic_msg(p)))),
                Ok(Err(e)) => Err(("accepted-session-errors".into(), format!("the spectator session for {model:?}: {e}"))),
                Ok(Ok(())) => Ok((true, seq.len() as u64 + 1)),
            }
        }
        _ => {
            let want = model.synctest_ok();
            let r = catch_unwind(AssertUnwindSafe(|| b.start_synctest_session()));
            match r {
                Err(p) => Err(("builder-panic".into(), format!("start_synctest_session panicked: {}", crate::world::panic_msg(p)))),
                Ok(Err(e)) => {
                    if want {
                        Err(("valid-config-rejected".into(), format!("start_synctest_session failed with {e}; model state {model:?}")))
                    } else {
                        Ok((false, seq.len() as u64 + 1))
                    }
                }
                Ok(Ok(mut s)) => {
                    if !want {
                        return Err(("invalid-config-accepted".into(), format!("start_synctest_session succeeded; model state {model:?}")));
                    }
                    let n = model.n;
                    let r = catch_unwind(AssertUnwindSafe(|| {
                        for i in 0..24 {
                            for h in 0..n {
                                s.add_local_input(h, (i % 5) as u8 + 1).map_err(|e| format!("{e}"))?;
                            }
                            let reqs = s.advance_frame().map_err(|e| format!("{e}"))?;
                            for rq in reqs {
                                match rq {
                                    ggrs::GgrsRequest::SaveGameState { cell, frame } => cell.save(frame, Some(GameSt { frame, hash: 0 }), Some(frame as u128)),
                                    _ => {}
                                }
                            }
                        }
                        Ok::<(), String>(())
                    }));
                    match r {
                        Err(p) => Err(("accepted-session-panics".into(), format!("the synctest session for {model:?} panicked: {}", crate::world::panic_msg(p)))),
                        Ok(Err(e)) => Err(("accepted-session-errors".into(), format!("the synctest session for {model:?}: {e}"))),
                        Ok(Ok(())) => Ok((true, seq.len() as u64 + 1)),
                    }
                }
            }
        }
    }
}

fn builder_sweep(rep: &mut Report, max_len: usize) {
    let alpha = alphabet();
    let a = alpha.len() as u64;
    let mut total = 0u64;
    for l in 0..=max_len {
        total += a.pow(l as u32);
    }
    let next = AtomicU64::new(0);
    let found: Mutex<Vec<(String, String, Vec<Call>, u8)>> = Mutex::new(Vec::new());
    let stats: Mutex<(u64, u64, u64, HashSet<u64>)> = Mutex::new((0, 0, 0, HashSet::new()));
    let chunk = 4096u64;
    std::thread::scope(|s| {
        for _ in 0..16 {
            s.spawn(|| {
                let (mut acc, mut rej, mut calls) = (0u64, 0u64, 0u64);
                let mut outcomes = HashSet::new();
                loop {
                    let start = next.fetch_add(chunk, Ordering::Relaxed);
                    if start >= total {
                        break;
                    }
                    for idx in start..(start + chunk).min(total) {
                        // decode idx into a sequence
                        let mut i = idx;
                        let mut len = 0usize;
                        loop {
                            let c = a.pow(len as u32);
                            if i < c {
                                break;
                            }
                            i -= c;
                            len += 1;
                        }
                        let mut seq = vec![alpha[0]; len];
                        for k in (0..len).rev() {
                            seq[k] = alpha[(i % a) as usize];
                            i /= a;
                        }
                        for st in 0..3u8 {
                            match run_sequence(&seq, st) {
                                Ok((accepted, n)) => {
                                    calls += n;
                                    if accepted {
                                        acc += 1;
                                    } else {
                                        rej += 1;
                                    }
                                    let mut h = 0xcbf2_9ce4_8422_2325u64;
                                    crate::types::fnv(&mut h, &[st, u8::from(accepted), n as u8]);
                                    outcomes.insert(h);
                                }
                                Err((kind, detail)) => {
                                    let mut f = found.lock().unwrap();
                                    if f.len() < 200 {
                                        f.push((kind, detail, seq.clone(), st));
                                    }
                                }
                            }
                        }
                    }
                }
                let mut g = stats.lock().unwrap();
                g.0 += acc;
                g.1 += rej;
                g.2 += calls;
                g.3.extend(outcomes);
            });
        }
    });
    for (kind, detail, seq, st) in found.into_inner().unwrap() {
        rep.add_finding(Finding {
            prop: "C16".into(),
            kind,
            detail: format!("{seq:?} then start #{st}: {detail}"),
            class: "builder-sequences".into(),
            replay: json!({"engine": "builder", "sequence": seq, "start": st}),
        });
    }
    let g = stats.into_inner().unwrap();
    rep.evaluations += total * 3;
    rep.transitions += g.2;
    for x in &g.3 {
        rep.nontrivial.insert(*x);
        rep.fingerprints.insert(*x);
    }
    rep.samples.push(json!({"sequence": [Call::NumPlayers(3), Call::AddSpectator(20, 2), Call::NumPlayers(2)], "start": "start_p2p_session", "expected": "third call rejected: the spectator handle 2 would become a player handle... no: 2 >= 2 stays valid; start rejected (players 0,1 missing)"}));
    rep.parts.push(json!({"part": "every sequence of builder calls up to the length, each followed by each start_* call; accepted sessions are driven for 24 calls", "alphabet_size": a, "max_len": max_len, "sequences": total, "runs": total * 3, "accepted_and_driven": g.0, "rejected_as_the_model_says": g.1, "builder_calls_compared": g.2, "distinct_outcome_classes": g.3.len()}));
}

// ------------------------------------------------------------------ misuse at run time

fn behaviour(res: &ExecResult, ni: usize) -> Vec<String> {
    let n = &res.nodes[ni];
    let mut out = Vec::new();
    for c in &n.calls {
        let evs: Vec<String> = n.events.iter().filter(|e| e.0 == c.round).map(|e| format!("{:?}", e.2)).collect();
        out.push(format!("round {} res {} adv {} save {} load {} cur {} conf {} events {:?}", c.round, c.res, c.n_adv, c.n_save, c.n_load, c.cur, c.conf, evs));
    }
    for (f, fr) in n.sims.iter().enumerate() {
        out.push(format!("frame {f} vals {:?} stats {:?} sims {}", fr.vals, fr.stats, fr.count));
    }
    out.push(format!("conn {:?} crashed {:?}", n.conn, n.crashed));
    out
}

pub fn misuse_judge(scn: &Scenario, res: &ExecResult, _b: Option<&ExecResult>) -> Vec<Violation> {
    let mut out = Vec::new();
    let mk = |kind: &str, node: usize, round: i32, detail: String| Violation { prop: "C16", kind: kind.to_owned(), detail, round, node };
    // advance_frame without new input is only a misuse when no input is pending: after a call
    // that stalled, or that failed with NotSynchronized, the inputs added for it are still
    // pending by design. If such a call succeeded the harness has not executed its requests, so
    // nothing else in this run can be judged.
    for nt in res.nodes.iter() {
        for a in nt.actions.iter().filter(|a| a.action == Action::AdvanceWithoutInput && a.res == R_OK) {
            let prev = nt.calls.iter().rev().find(|c| c.round < a.round && c.res != crate::world::R_NO_TICK && c.res != crate::world::R_STALLED);
            let pending = prev.map(|c| c.n_adv == 0).unwrap_or(false);
            if pending {
                return Vec::new();
            }
            return vec![mk("misuse-wrong-result", 0, a.round, format!("advance_frame without any pending local input returned Ok ({}) in round {}", a.detail, a.round))];
        }
    }
    for (ni, nt) in res.nodes.iter().enumerate() {
        if let Some(m) = &nt.crashed {
            out.push(mk("misuse-panics", ni, 0, format!("a misuse call made session {ni} panic: {m}")));
        }
        for a in &nt.actions {
            let want = match &a.action {
                Action::AdvanceWithoutInput => {
                    // synchronised = every remote endpoint (players and spectators) has completed
                    // 5 matched round trips, as counted by the simulated network
                    let t_call = nt.calls.iter().find(|c| c.round == a.round).map(|c| c.t_us).unwrap_or(u64::MAX);
                    let me = nt.addr;
                    let mut remotes: Vec<u8> = scn.peers.iter().filter(|p| p.addr != me).map(|p| p.addr).collect();
                    remotes.extend(scn.specs.iter().filter(|sp| sp.host == me).map(|sp| sp.addr));
                    let synced = remotes.iter().all(|r| res.matched_log.iter().any(|m| m.0 == me && m.1 == *r && m.2 >= 5 && m.3 <= t_call));
                    if scn.handshake_phase && !synced {
                        R_NOT_SYNC
                    } else {
                        // the inputs of a call that stalled stay pending: advancing again without
                        // adding input is then legitimate, not a misuse - nothing to judge
                        let prev = nt.calls.iter().rev().find(|c| c.round < a.round && c.res == R_OK);
                        if prev.map(|c| c.n_adv == 0).unwrap_or(false) {
                            return Vec::new();
                        }
                        R_INVALID
                    }
                }
                _ => R_INVALID,
            };
            if a.res != want {
                out.push(mk("misuse-wrong-result", ni, a.round, format!("{:?} in round {} returned code {} ({}) instead of the documented error (code {want})", a.action, a.round, a.res, a.detail)));
            }
        }
    }
    if !out.is_empty() {
        return out;
    }
    let mut base = scn.clone();
    base.script.retain(|i| !i.action_is_misuse());
    let b = run_scn(&base, &Vec::new(), &RunOpt::default());
    for ni in 0..res.nodes.len() {
        let (x, y) = (behaviour(res, ni), behaviour(&b, ni));
        if x != y {
            let diff = x.iter().zip(y.iter()).find(|(p, q)| p != q).map(|(p, q)| format!("with the misuse call: [{p}] / without: [{q}]")).unwrap_or_default();
            out.push(mk("misuse-has-effect", ni, 0, format!("a rejected call changed what session {ni} does: {diff}")));
            break;
        }
    }
    out
}

fn misuse_part(rep: &mut Report) {
    let t = rep.thorough();
    let mut scns = Vec::new();
    // (topology, window, spectator, handshake phase)
    for (tp, w, spec, hs) in [("1+1", 2usize, false, false), ("2+1", 8, false, false), ("1+2", 2, false, false), ("1+1", 8, true, false), ("1+1", 0, false, false), ("1+1", 2, false, true), ("1+1", 2, true, true)] {
        let mut base = base_scn("c16-misuse", tp, w, 0, false, Pred::RepeatLast, Program::Changing, 1);
        if spec {
            base.specs.push(SpecSpec::new(20, base.peers[0].addr));
            if hs {
                // the spectator's handshake completes later than the remote player's
                let a = base.peers[0].addr;
                base.outages.push(crate::net::Outage { from: 20, to: a, start: 0, len: 9, classes: crate::wire::CLASS_ALL });
            }
        }
        base.handshake_phase = hs;
        base.horizon = if hs { 26 } else { 10 };
        base.probe = 30;
        base.checks = CK_CORE;
        let n = base.num_players;
        let remote_h = base.peers[1].locals[0];
        let local_h = base.peers[0].locals[0];
        let spec_h = n; // handle of the spectator if any
        let mut actions: Vec<Action> = vec![
            Action::AddInputFor { handle: remote_h },
            Action::AddInputFor { handle: 7 },
            Action::AdvanceWithoutInput,
            Action::Disconnect { handle: local_h },
            Action::Disconnect { handle: 9 },
            Action::SetDelay { handle: remote_h, delay: 2 },
            Action::SetDelay { handle: 9, delay: 2 },
            Action::NetStats { handle: local_h },
            Action::NetStats { handle: 9 },
        ];
        if spec {
            actions.push(Action::AddInputFor { handle: spec_h });
            actions.push(Action::SetDelay { handle: spec_h, delay: 1 });
        }
        let rounds: Vec<i32> = if t { (0..base.horizon).collect() } else { (0..base.horizon).step_by(3).collect() };
        for &r in &rounds {
            for a in &actions {
                let mut s = base.clone();
                s.script.push(ScriptItem { round: r, node: 0, action: a.clone() });
                s.name = format!("{} hs={hs} misuse {a:?}@{r}", base.name);
                scns.push(s);
                if t {
                    for a2 in actions.iter().take(4) {
                        let mut s2 = base.clone();
                        s2.script.push(ScriptItem { round: r, node: 0, action: a.clone() });
                        s2.script.push(ScriptItem { round: (r + 2).min(base.horizon - 1), node: 0, action: a2.clone() });
                        s2.name = format!("{} hs={hs} misuse {a:?}@{r} + {a2:?}", base.name);
                        scns.push(s2);
                    }
                }
            }
        }
        // disconnecting an already disconnected player: a valid disconnect first, then the same
        // handle again or (two players at one address) its sibling, which went with it
        if !hs {
            // the second call comes 2 rounds later, or long after: the endpoint of a disconnected
            // player lingers for 5 s (300 rounds) and is then shut down for good
            for r in [2, 5] {
                for gap in [2, 40, 299, 301, 310, 420] {
                    if !t && r == 5 && gap != 2 && gap != 310 {
                        continue;
                    }
                    for sibling in 0..base.peers[1].locals.len() {
                        let mut s = base.clone();
                        s.script.push(ScriptItem { round: r, node: 0, action: Action::Disconnect { handle: remote_h } });
                        s.probe = s.probe.max(gap + 40);
                        s.name = format!("{} valid disconnect@{r} then again gap={gap} sibling={sibling}", base.name);
                        s.checks = crate::props::drop::CK_DROP;
                        scns.push(s);
                    }
                }
            }
        }
    }
    let n = scns.len();
    let cfg = ExploreCfg { k: Some(0), wall: Duration::from_secs(if t { 900 } else { 40 }), ..Default::default() };
    let mut out = explore(&scns, &cfg, &misuse_judge_wrapper);
    for s in &scns {
        let mut h = 0xcbf2_9ce4_8422_2325u64;
        crate::types::fnv(&mut h, s.name.as_bytes());
        out.nontrivial.insert(h);
    }
    rep.absorb("misuse calls inserted at every round of valid runs (1+1, 2+1, 1+2, +spectator, lockstep, during the handshake)", out, &["C16"], json!({"k": 0, "scenarios": n}));
}

fn misuse_judge_wrapper(scn: &Scenario, res: &ExecResult, b: Option<&ExecResult>) -> Vec<Violation> {
    if scn.name.contains("valid disconnect@") {
        // second disconnect of the same player must be rejected, without panic
        let mut out = Vec::new();
        let r = scn.script[0].round;
        let mut s2 = scn.clone();
        if let Action::Disconnect { handle } = scn.script[0].action {
            let sib: usize = scn.name.rsplit("sibling=").next().and_then(|x| x.parse().ok()).unwrap_or(0);
            let h2 = scn.peers[scn.owner_of(handle)].locals.get(sib).copied().unwrap_or(handle);
            let gap: i32 = scn.name.split("gap=").nth(1).and_then(|x| x.split(' ').next()).and_then(|x| x.parse().ok()).unwrap_or(2);
            s2.script.push(ScriptItem { round: r + gap, node: 0, action: Action::Disconnect { handle: h2 } });
        }
        let res2 = run_scn(&s2, &Vec::new(), &RunOpt::default());
        let nt = &res2.nodes[0];
        if let Some(m) = &nt.crashed {
            out.push(Violation { prop: "C16", kind: "misuse-panics".into(), detail: format!("disconnecting an already disconnected player panicked: {m}"), round: r + 2, node: 0 });
        } else if nt.actions.len() < 2 || nt.actions[1].res != R_INVALID || nt.actions[0].res != R_OK {
            out.push(Violation { prop: "C16", kind: "misuse-wrong-result".into(), detail: format!("disconnect twice: results {:?}", nt.actions.iter().map(|a| (a.res, a.detail.clone())).collect::<Vec<_>>()), round: r + 2, node: 0 });
        } else {
            let (x, y) = (behaviour(&res2, 0), behaviour(res, 0));
            if x != y {
                out.push(Violation { prop: "C16", kind: "misuse-has-effect".into(), detail: "the rejected second disconnect_player changed the session's behaviour".into(), round: r + 2, node: 0 });
            }
        }
        return out;
    }
    misuse_judge(scn, res, b)
}

/// Misuse of a SyncTestSession: input for an unknown handle, advancing with an input missing.
fn synctest_misuse_part(rep: &mut Report) {
    use ggrs::{GgrsRequest, InputStatus};
    let mut n = 0u64;
    let mut fps = HashSet::new();
    for players in 1..=3usize {
        for cd in [0usize, 2, 4] {
            for delay in [0usize, 2] {
                // baseline trace
                let run = |misuse_at: Option<(i32, u8)>| -> Result<(Vec<String>, Vec<String>), String> {
                    ggrs::verif_hooks::reset(1_000_000, 7, 1);
                    let mut sess = SessionBuilder::<CfgR>::new()
                        .with_num_players(players)
                        .map_err(|e| e.to_string())?
                        .with_max_prediction_window(8)
                        .with_check_distance(cd)
                        .with_input_delay(delay)
                        .start_synctest_session()
                        .map_err(|e| e.to_string())?;
                    let mut game = GameSt { frame: 0, hash: INITIAL_HASH };
                    let mut trace = Vec::new();
                    let mut errs = Vec::new();
                    for call in 0..24 {
                        let f = sess.current_frame();
                        if let Some((at, kind)) = misuse_at {
                            if at == call {
                                let r = catch_unwind(AssertUnwindSafe(|| match kind {
                                    0 => sess.add_local_input(players, 9).map(|_| Vec::new()),
                                    1 => sess.add_local_input(players + 7, 9).map(|_| Vec::new()),
                                    _ => {
                                        // all inputs but the last one, then advance
                                        for p in 0..players.saturating_sub(1) {
                                            sess.add_local_input(p, Program::Changing.value(p, f)).unwrap();
                                        }
                                        sess.advance_frame()
                                    }
                                }));
                                match r {
                                    Err(p) => return Err(format!("misuse kind {kind} at call {call} panicked: {}", crate::world::panic_msg(p))),
                                    Ok(Ok(_)) => errs.push(format!("misuse kind {kind} at call {call} returned Ok")),
                                    Ok(Err(GgrsError::InvalidRequest { .. })) => {}
                                    Ok(Err(e)) => errs.push(format!("misuse kind {kind} at call {call} returned {e:?} instead of InvalidRequest")),
                                }
                            }
                        }
                        for p in 0..players {
                            sess.add_local_input(p, Program::Changing.value(p, f)).map_err(|e| e.to_string())?;
                        }
                        let reqs = sess.advance_frame().map_err(|e| format!("advance_frame at call {call}: {e}"))?;
                        for rq in reqs {
                            match rq {
                                GgrsRequest::SaveGameState { cell, frame } => {
                                    trace.push(format!("save {frame}"));
                                    cell.save(frame, Some(game), Some(u128::from(game.hash)));
                                }
                                GgrsRequest::LoadGameState { cell, frame } => {
                                    trace.push(format!("load {frame}"));
                                    game = cell.load().ok_or("empty cell")?;
                                }
                                GgrsRequest::AdvanceFrame { inputs } => {
                                    trace.push(format!("advance {:?}", inputs.iter().map(|x| (x.0, x.1 == InputStatus::Confirmed)).collect::<Vec<_>>()));
                                    game = game_step(game, &inputs);
                                }
                            }
                        }
                    }
                    Ok((trace, errs))
                };
                let base = match run(None) {
                    Ok(b) => b.0,
                    Err(e) => {
                        rep.machinery.push(format!("synctest baseline failed: {e}"));
                        continue;
                    }
                };
                for at in 0..24 {
                    for kind in 0..3u8 {
                        if kind == 2 && players == 1 {
                            // with one player "all but the last input" is no input at all: still a misuse
                        }
                        n += 1;
                        let case = json!({"players": players, "check_distance": cd, "delay": delay, "misuse_at_call": at, "kind": kind});
                        let mut h = 0xcbf2_9ce4_8422_2325u64;
                        crate::types::fnv(&mut h, case.to_string().as_bytes());
                        fps.insert(h);
                        match run(Some((at, kind))) {
                            Err(e) => rep.add_finding(Finding { prop: "C16".into(), kind: "misuse-panics".into(), detail: format!("synctest {case}: {e}"), class: "synctest-misuse".into(), replay: json!({"engine": "synctest-misuse", "case": case}) }),
                            Ok((trace, errs)) => {
                                for e in errs {
                                    rep.add_finding(Finding { prop: "C16".into(), kind: "misuse-wrong-result".into(), detail: format!("synctest {case}: {e}"), class: "synctest-misuse".into(), replay: json!({"engine": "synctest-misuse", "case": case}) });
                                }
                                if trace != base {
                                    rep.add_finding(Finding { prop: "C16".into(), kind: "misuse-has-effect".into(), detail: format!("synctest {case}: the request lists after the rejected call differ from the run without it"), class: "synctest-misuse".into(), replay: json!({"engine": "synctest-misuse", "case": case}) });
                                }
                            }
                        }
                    }
                }
            }
        }
    }
    rep.evaluations += n;
    rep.nontrivial.extend(fps.iter().copied());
    rep.fingerprints.extend(fps.iter().copied());
    rep.parts.push(json!({"part": "SyncTestSession misuse: input for an unknown handle / advancing with an input missing, inserted at every call", "runs": n}));
}

pub fn c16() -> i32 {
    let mut rep = Report::new("C16", "model_checking");
    rep.rule = "word sweep: every sequence of builder calls over a 48-call alphabet up to length 3 (quick) / 4 (thorough), each followed by each of the three start_* calls, against a reference validity model; every accepted session is driven for 24 calls; run-time misuse: one (thorough: two) rejected call(s) inserted at every round of valid runs, differential against the run without them; distinct = distinct outcome classes / distinct misuse scenarios".to_owned();
    rep.assumptions = vec!["value domains as listed in the alphabet (delay and window <= 16)".into()];
    let max_len = if rep.thorough() { 4 } else { 3 };
    builder_sweep(&mut rep, max_len);
    misuse_part(&mut rep);
    synctest_misuse_part(&mut rep);
    rep.states = rep.fingerprints.len() as u64;
    rep.finish()
}
