//! C01-C04: the rollback core. One scenario grid, four oracles.
use crate::explore::{explore, ExploreCfg};
use crate::net::{Fate, FaultSpec, Outage};
use crate::report::Report;
use crate::scenario::*;
use crate::types::{Pred, Program};
use crate::wire::*;
use crate::world::{ExecResult, Violation};
use serde_json::json;
use std::time::Duration;

pub fn topo(name: &str, w: usize, d: usize, sparse: bool) -> (usize, Vec<PeerSpec>) {
    let mk = |addr: u8, locals: Vec<usize>| PeerSpec::new(addr, locals, w, d, sparse);
    match name {
        "1+1" => (2, vec![mk(10, vec![0]), mk(11, vec![1])]),
        "2+1" => (3, vec![mk(10, vec![0, 1]), mk(11, vec![2])]),
        "1+2" => (3, vec![mk(10, vec![0]), mk(11, vec![1, 2])]),
        "1+1+1" => (3, vec![mk(10, vec![0]), mk(11, vec![1]), mk(12, vec![2])]),
        "2+2" => (4, vec![mk(10, vec![0, 1]), mk(11, vec![2, 3])]),
        "1+1+1+1" => (4, vec![mk(10, vec![0]), mk(11, vec![1]), mk(12, vec![2]), mk(13, vec![3])]),
        "2+1+1" => (4, vec![mk(10, vec![0, 1]), mk(11, vec![2]), mk(12, vec![3])]),
        "2" => (2, vec![mk(10, vec![0, 1])]),
        "1" => (1, vec![mk(10, vec![0])]),
        "3+1" => (4, vec![mk(10, vec![0, 1, 2]), mk(11, vec![3])]),
        _ => panic!("unknown topology {name}"),
    }
}

#[allow(clippy::too_many_arguments)]
pub fn base_scn(
    class: &str,
    t: &str,
    w: usize,
    d: usize,
    sparse: bool,
    pred: Pred,
    prog: Program,
    lat: i32,
) -> Scenario {
    let (n, peers) = topo(t, w, d, sparse);
    let mut s = Scenario::new(
        &format!("{class}:{t} w={w} d={d} sparse={sparse} pred={pred:?} prog={prog:?} L={lat}"),
        n,
        peers,
    );
    s.pred = pred;
    s.program = prog;
    s.latency = lat;
    s
}

pub fn packet_faults(start: i32, len: i32, classes: u16, fates: Vec<Fate>, tick_alts: u8) -> FaultSpec {
    FaultSpec {
        start,
        end: start + len,
        classes,
        fates,
        links: Vec::new(),
        tick_alts,
        link_rounds: Vec::new(),
    }
}

/// No end-of-run judge for the core: everything is checked inline, call by call.
pub fn no_judge(_: &Scenario, _: &ExecResult, _: Option<&ExecResult>) -> Vec<Violation> {
    Vec::new()
}

/// Vacuity guard: the mechanisms the core properties are about must actually have fired.
fn vacuity(rep: &mut Report) {
    let mut rollbacks = 0u64;
    let mut stalls = 0u64;
    let mut mis = 0u64;
    for p in &rep.parts {
        rollbacks += p["counters"]["rollbacks"].as_u64().unwrap_or(0);
        stalls += p["counters"]["stalls"].as_u64().unwrap_or(0);
        mis += p["counters"]["mispredicted_resims"].as_u64().unwrap_or(0);
    }
    rep.coverage.insert("total_rollbacks".into(), json!(rollbacks));
    rep.coverage.insert("total_stalled_calls".into(), json!(stalls));
    rep.coverage.insert("total_resimulations_with_changed_inputs".into(), json!(mis));
    if rollbacks == 0 || mis == 0 {
        rep.machinery.push("vacuous run: no rollback with changed inputs happened anywhere".to_owned());
    }
}

struct GridPoint {
    t: &'static str,
    w: usize,
    d: usize,
    sparse: bool,
    pred: Pred,
    prog: Program,
    lat: i32,
}

fn quick_grid() -> Vec<GridPoint> {
    use Pred::*;
    use Program::*;
    // pairwise-covering selection over topology x window x delay x sparse x predictor x program x latency
    vec![
        GridPoint { t: "1+1", w: 2, d: 0, sparse: false, pred: RepeatLast, prog: Changing, lat: 1 },
        GridPoint { t: "1+1", w: 8, d: 1, sparse: true, pred: Default, prog: Sparse, lat: 2 },
        GridPoint { t: "2+1", w: 3, d: 0, sparse: true, pred: RepeatLast, prog: Runs, lat: 1 },
        GridPoint { t: "2+1", w: 1, d: 3, sparse: false, pred: Default, prog: Changing, lat: 0 },
        GridPoint { t: "1+1+1", w: 2, d: 1, sparse: false, pred: RepeatLast, prog: Sparse, lat: 1 },
        GridPoint { t: "1+1+1", w: 8, d: 0, sparse: true, pred: Default, prog: Runs, lat: 0 },
        GridPoint { t: "2+2", w: 3, d: 1, sparse: false, pred: Default, prog: Runs, lat: 2 },
        GridPoint { t: "2+2", w: 2, d: 3, sparse: true, pred: RepeatLast, prog: Changing, lat: 1 },
        // several remote players whose predictions go wrong at different frames, full saving
        GridPoint { t: "1+1+1", w: 3, d: 0, sparse: false, pred: RepeatLast, prog: Changing, lat: 1 },
        GridPoint { t: "1+2", w: 8, d: 0, sparse: false, pred: RepeatLast, prog: Runs, lat: 1 },
        GridPoint { t: "1+1+1+1", w: 3, d: 0, sparse: false, pred: Default, prog: Changing, lat: 1 },
        GridPoint { t: "2+2", w: 8, d: 0, sparse: false, pred: RepeatLast, prog: Runs, lat: 2 },
        // unusual but legal: delay far larger than the window; three players on one peer
        GridPoint { t: "1+1", w: 1, d: 16, sparse: false, pred: RepeatLast, prog: Changing, lat: 1 },
        GridPoint { t: "3+1", w: 12, d: 7, sparse: true, pred: Default, prog: Runs, lat: 1 },
        // a long link: five rounds one way, wide window
        GridPoint { t: "1+1+1", w: 12, d: 2, sparse: false, pred: RepeatLast, prog: Changing, lat: 5 },
    ]
}

fn full_grid(thorough_extra: bool) -> Vec<GridPoint> {
    let mut v = Vec::new();
    let topos: &[&'static str] = if thorough_extra {
        &["1+1", "2+1", "1+1+1", "2+2", "1+1+1+1"]
    } else {
        &["1+1", "2+1", "1+1+1", "2+2"]
    };
    for t in topos {
        for w in [1usize, 2, 3, 8] {
            for d in [0usize, 1, 3] {
                for sparse in [false, true] {
                    for pred in [Pred::RepeatLast, Pred::Default] {
                        for prog in [Program::Changing, Program::Runs, Program::Sparse] {
                            for lat in [0, 1, 2] {
                                v.push(GridPoint { t, w, d, sparse, pred, prog, lat });
                            }
                        }
                    }
                }
            }
        }
    }
    v
}

fn gp_scn(class: &str, g: &GridPoint) -> Scenario {
    base_scn(class, g.t, g.w, g.d, g.sparse, g.pred, g.prog, g.lat)
}

const PACKET_FATES: [Fate; 3] = [Fate::Drop, Fate::Dup, Fate::Delay(2)];

/// The scenario sets of C01's space. `checks` selects the inline oracles.
pub fn core_parts(rep: &mut Report, props: &[&str], checks: u32) {
    let thorough = rep.thorough();
    let judge = &no_judge;
    // ---- part A: D(k<=2) packet/tick deviations in a window after a few clean rounds
    {
        let mut scns = Vec::new();
        let grid = if thorough { full_grid(false) } else { quick_grid() };
        // thorough: the full grid gets k<=1; the pairwise selection gets k<=2 with a wider window
        let mut long_links = Vec::new();
        for g in &grid {
            if !thorough && g.lat >= 5 {
                // many more packets in flight: k<=1 in the quick tier (below)
                let mut s = gp_scn("core-D-long-link", g);
                s.horizon = 16;
                s.probe = 50;
                s.checks = checks;
                s.fault = packet_faults(3, 4, CLASS_INPUT | CLASS_INPUT_ACK, PACKET_FATES.to_vec(), 1);
                long_links.push(s);
                continue;
            }
            let mut s = gp_scn("core-D", g);
            s.horizon = 14;
            s.probe = 40;
            s.checks = checks;
            s.fault = packet_faults(3, if thorough { 5 } else { 4 }, CLASS_INPUT | CLASS_INPUT_ACK, PACKET_FATES.to_vec(), 1);
            scns.push(s);
        }
        // games that save their states without a checksum (the cell contract does not depend on
        // checksums): the same window on the full-saving configurations
        for g in quick_grid().iter().filter(|g| !g.sparse && (thorough || g.lat < 5)) {
            let mut s = gp_scn("core-D-nochecksum", g);
            s.no_checksum = (0..s.peers.len()).collect();
            s.horizon = 14;
            s.probe = 40;
            s.checks = checks;
            s.fault = packet_faults(2, 4, CLASS_INPUT | CLASS_INPUT_ACK, vec![Fate::Drop, Fate::Delay(2), Fate::Delay(3)], 1);
            scns.push(s);
        }
        // the same deviations from the very first round (before any remote input has arrived)
        for g in quick_grid().iter().filter(|g| thorough || g.lat < 5) {
            let mut s = gp_scn("core-D0", g);
            s.horizon = 8;
            s.probe = 40;
            s.checks = checks;
            s.fault = packet_faults(0, if thorough { 4 } else { 3 }, CLASS_INPUT | CLASS_INPUT_ACK, PACKET_FATES.to_vec(), 1);
            scns.push(s);
        }
        let k = if thorough { 1 } else { 2 };
        let cfg = ExploreCfg { k: Some(k), wall: Duration::from_secs(if thorough { 900 } else { 40 }), ..Default::default() };
        let out = explore(&scns, &cfg, judge);
        rep.absorb("A: packet drop/dup/delay(+2) and peer stall, window after 3 clean rounds and window from round 0", out, props,
            json!({"k": k, "window_rounds": if thorough {5} else {4}, "classes": "Input,InputAck", "fates": "drop,dup,delay+2", "tick": "stall", "configs": scns.len(), "horizon_rounds": 14, "probe_rounds": 40}));
        if !long_links.is_empty() {
            let cfg = ExploreCfg { k: Some(1), wall: Duration::from_secs(40), ..Default::default() };
            let out = explore(&long_links, &cfg, judge);
            rep.absorb("A': the same window on the long-link configuration (five rounds one way), k<=1", out, props, json!({"k": 1, "configs": long_links.len()}));
        }
        if thorough {
            let mut scns = Vec::new();
            for g in &quick_grid() {
                let mut s = gp_scn("core-D2", g);
                s.horizon = 16;
                s.probe = 40;
                s.checks = checks;
                s.fault = packet_faults(3, 6, CLASS_RUNNING, vec![Fate::Drop, Fate::Dup, Fate::Delay(1), Fate::Delay(3)], 2);
                scns.push(s);
            }
            let cfg = ExploreCfg { k: Some(2), wall: Duration::from_secs(1200), ..Default::default() };
            let out = explore(&scns, &cfg, judge);
            rep.absorb("A2: k<=2 on all running packet classes, fates drop/dup/delay+1/delay+3, tick stall|poll-only", out, props,
                json!({"k": 2, "window_rounds": 6, "classes": "all running", "configs": scns.len()}));
            let mut scns = Vec::new();
            for g in quick_grid().iter().take(4) {
                let mut s = gp_scn("core-D3", g);
                s.horizon = 10;
                s.probe = 40;
                s.checks = checks;
                s.fault = packet_faults(3, 3, CLASS_INPUT | CLASS_INPUT_ACK, vec![Fate::Drop, Fate::Delay(2)], 1);
                scns.push(s);
            }
            let cfg = ExploreCfg { k: Some(3), wall: Duration::from_secs(1200), ..Default::default() };
            let out = explore(&scns, &cfg, judge);
            rep.absorb("A3: k<=3 on Input/InputAck, fates drop/delay+2, tick stall", out, props,
                json!({"k": 3, "window_rounds": 3, "configs": scns.len()}));
        }
    }
    // ---- part B: compound faults: link outages (one and both directions) x k<=1
    {
        let mut scns = Vec::new();
        let grid = if thorough { full_grid(false) } else { quick_grid() };
        let max_len = 12;
        for (gi, g) in grid.iter().enumerate() {
            let base = gp_scn("core-outage", g);
            let a = base.peers[0].addr;
            let b = base.peers[1].addr;
            for start in [0, 2, 5] {
                for len in 1..=max_len {
                    // quick: thin out the grid of lengths on all but the first two configs
                    if !thorough && gi >= 2 && len % 3 != 0 {
                        continue;
                    }
                    for dirs in 0..3 {
                        let mut s = base.clone();
                        s.name = format!("{} outage start={start} len={len} dirs={dirs}", base.name);
                        s.horizon = start + len + 6;
                        s.probe = 40;
                        s.checks = checks;
                        if dirs == 0 || dirs == 2 {
                            s.outages.push(Outage { from: a, to: b, start, len, classes: CLASS_ALL });
                        }
                        if dirs == 1 || dirs == 2 {
                            s.outages.push(Outage { from: b, to: a, start, len, classes: CLASS_ALL });
                        }
                        // with three or more peers also the link from the last peer, shifted, so
                        // that bursts from different peers overlap in one poll
                        if s.peers.len() >= 3 && dirs == 2 {
                            let c = s.peers[s.peers.len() - 1].addr;
                            s.outages.push(Outage { from: c, to: a, start: start + 2, len: (len - 2).max(1), classes: CLASS_ALL });
                        }
                        // outages longer than the window stall the starved peer: the same with
                        // applications that hand over a fresh value when they submit a frame's
                        // input again after a stalled call (the first value was sent and stays)
                        if len as usize > g.w && dirs >= 1 && start == 2 {
                            let mut x = s.clone();
                            x.peers.iter_mut().for_each(|p| p.input_style = 3);
                            x.name = format!("{} fresh-value-on-resubmission", x.name);
                            scns.push(x);
                        }
                        scns.push(s);
                    }
                }
            }
        }
        let cfg = ExploreCfg { k: Some(0), wall: Duration::from_secs(if thorough { 900 } else { 40 }), variants: crate::explore::CORE_MENU, variant_every: if thorough { 1 } else { 3 }, ..Default::default() };
        let n = scns.len();
        let out = explore(&scns, &cfg, judge);
        rep.absorb("B: link outages between the first two peers, every length 1..=12, start 0|2|5, a->b | b->a | both", out, props,
            json!({"k": 0, "outage_lengths": "1..=12", "scenarios": n}));
    }
    // ---- part C: long histories with background loss, fault window across ring wraps
    {
        let mut scns = Vec::new();
        let wraps: Vec<i32> = if thorough { vec![120, 250, 380, 1020] } else { vec![124] };
        let grid = quick_grid();
        let sel: Vec<&GridPoint> = if thorough { grid.iter().collect() } else { grid.iter().take(3).collect() };
        for g in sel {
            for wrap in &wraps {
                let mut s = gp_scn("core-long", g);
                s.name = format!("{} window@{wrap}", s.name);
                s.horizon = wrap + 12;
                s.probe = 40;
                s.checks = checks;
                s.background = Background { loss_every: 7, delay_every: 11, stall_every: 13 };
                s.fault = packet_faults(*wrap, 4, CLASS_INPUT | CLASS_INPUT_ACK, vec![Fate::Drop, Fate::Delay(3)], 1);
                scns.push(s);
            }
        }
        let cfg = ExploreCfg { k: Some(1), wall: Duration::from_secs(if thorough { 900 } else { 40 }), ..Default::default() };
        let out = explore(&scns, &cfg, judge);
        rep.absorb("C: long histories (background loss 1/7, delay 1/11, stall 1/13 throughout) with a k<=1 fault window placed across input-ring wraps", out, props,
            json!({"k": 1, "window_at_rounds": wraps, "configs": scns.len()}));
    }
    // ---- part L: long histories, no choice points: every ring wraps several times
    {
        let rounds = if thorough { 4000 } else { 1200 };
        let mut scns = Vec::new();
        for g in &quick_grid() {
            for bg in 0..2 {
                let mut s = gp_scn("core-verylong", g);
                s.background = if bg == 0 { Background { loss_every: 7, delay_every: 11, stall_every: 13 } } else { Background { loss_every: 3, delay_every: 5, stall_every: 29 } };
                s.name = format!("{} {rounds} rounds background={bg}", s.name);
                s.horizon = rounds;
                s.probe = 40;
                s.checks = checks;
                scns.push(s);
            }
        }
        // other frame rates (the retransmission / keep-alive / quality-report timers are in
        // milliseconds, so their phase against the ticks changes) and long latencies
        for (gi, g) in quick_grid().iter().enumerate() {
            let (fps, lat) = [(30usize, 1), (144, 3), (20, 0), (60, 6), (120, 9)][gi % 5];
            if g.w > 0 && (lat as usize) > 3 * g.w.max(4) {
                continue;
            }
            let mut s = gp_scn("core-verylong-fps", g);
            s.fps = fps;
            s.round_us = 1_000_000 / fps as u64;
            s.latency = lat;
            s.background = Background { loss_every: 5, delay_every: 9, stall_every: 17 };
            s.name = format!("{} fps={fps} latency={lat} {} rounds", s.name, rounds / 2);
            s.horizon = rounds / 2;
            s.probe = 60;
            s.checks = checks;
            scns.push(s);
        }
        // all-local hosts with a spectator, and a single player with a spectator
        for t in ["2", "1"] {
            for w in [0usize, 2, 8] {
                let mut s = base_scn("core-verylong-local-host", t, w, 1, false, Pred::RepeatLast, Program::Changing, 1);
                s.specs.push(SpecSpec::new(20, s.peers[0].addr));
                s.horizon = rounds;
                s.probe = 20;
                s.checks = checks;
                scns.push(s);
            }
        }
        let cfg = ExploreCfg { k: Some(0), wall: Duration::from_secs(if thorough { 600 } else { 40 }), variants: crate::explore::CORE_MENU, variant_every: if thorough { 1 } else { 3 }, ..Default::default() };
        let out = explore(&scns, &cfg, judge);
        rep.absorb("L: long histories under periodic background loss/delay/stalls (every ring buffer wraps many times), incl. all-local hosts with a spectator", out, props, json!({"k": 0, "rounds": rounds, "scenarios": scns.len()}));
    }
    // ---- part M: very long histories: frame numbers pass 2^15 and 2^16 (every 16-bit quantity a
    // frame number could be squeezed into wraps), every ring wraps hundreds of times (quick tier:
    // in C01's run only - C02 and C03 judge the same executions in their thorough tiers)
    if thorough || props[0] == "C01" {
        let rounds = 70_000;
        let mut scns = Vec::new();
        for (t, w, d, sparse, pred, desync, wide, spec) in [
            ("1+1", 8usize, 0usize, false, Pred::RepeatLast, 0u32, false, false),
            ("1+1", 2, 2, true, Pred::Default, 0, true, false),
            ("1+1", 0, 1, false, Pred::RepeatLast, 0, false, true),
            ("2+1", 3, 1, false, Pred::RepeatLast, 7, false, true),
        ] {
            let mut s = base_scn("core-70k", t, w, d, sparse, pred, Program::Changing, 1);
            for p in s.peers.iter_mut() {
                p.desync = desync;
            }
            s.wide = wide;
            if spec {
                s.specs.push(SpecSpec::new(20, s.peers[0].addr));
            }
            s.background = Background { loss_every: 7, delay_every: 11, stall_every: 13 };
            s.name = format!("{} desync={desync} wide={wide} spectator={spec} {rounds} rounds", s.name);
            s.horizon = rounds;
            s.probe = 40;
            s.checks = checks;
            scns.push(s);
        }
        let cfg = ExploreCfg { k: Some(0), wall: Duration::from_secs(if thorough { 600 } else { 40 }), ..Default::default() };
        let out = explore(&scns, &cfg, judge);
        rep.absorb("M: four configurations run for 70 000 rounds under periodic background faults (frame numbers beyond 2^16)", out, props, json!({"k": 0, "rounds": rounds, "scenarios": scns.len()}));
    }
    // ---- part D: relative speeds: one peer ticks every 2nd / 3rd round
    {
        let mut scns = Vec::new();
        let grid = if thorough { full_grid(false) } else { quick_grid() };
        for g in &grid {
            for (slow, every) in [(0usize, 2), (1, 2), (1, 3)] {
                let mut s = gp_scn("core-speed", g);
                s.name = format!("{} slow-peer={slow} every={every}", s.name);
                s.peers[slow].tick_every = every;
                s.horizon = 60;
                s.probe = 30;
                s.checks = checks;
                scns.push(s);
            }
        }
        // late starters: one peer makes its first tick S rounds after the others
        for g in &grid {
            for late in 0..2usize {
                for delay_rounds in [1, 2, 4, 7, 11] {
                    let mut s = gp_scn("core-late-start", g);
                    s.name = format!("{} late-peer={late} by={delay_rounds}", s.name);
                    for r in 0..delay_rounds {
                        s.scripted_stalls.push((late, r));
                    }
                    s.horizon = 40;
                    s.probe = 30;
                    s.checks = checks;
                    scns.push(s);
                }
            }
        }
        let cfg = ExploreCfg { k: Some(0), wall: Duration::from_secs(if thorough { 600 } else { 30 }), variants: crate::explore::CORE_MENU, variant_every: if thorough { 1 } else { 3 }, ..Default::default() };
        let out = explore(&scns, &cfg, judge);
        rep.absorb("D: unequal tick rates (one peer ticks every 2nd/3rd round) and late starters (first tick 1..11 rounds after the others)", out, props, json!({"k": 0, "scenarios": scns.len()}));
    }
}

fn common(rep: &mut Report) {
    rep.rule = "executions are enumerated: every scenario of the listed grids, and within a scenario every choice sequence with at most k non-default choices (packet fate, session stall) among the choice points offered in the fault window; an execution is non-trivial when its trace fingerprint (results, request counts, frames, events, per-frame final inputs and simulation counts of every session) differs from the fault-free execution of the same scenario; distinct = distinct fingerprints".to_owned();
    rep.assumptions = vec![
        "environment sources (clock, rand, hash seeds) are the verif-hooks replacements; the network is the harness' SimNet".to_owned(),
        "input values come from 4 fixed input programs over a 6-symbol alphabet; Input = u8".to_owned(),
        "bounds as listed under coverage.parts[*].bounds; nothing is claimed beyond them".to_owned(),
    ];
}

pub fn c01() -> i32 {
    let mut rep = Report::new("C01", "fault_enumeration");
    common(&mut rep);
    core_parts(&mut rep, &["C01", "PANIC"], CK_CORE);
    vacuity(&mut rep);
    rep.finish()
}

pub fn c03() -> i32 {
    let mut rep = Report::new("C03", "fault_enumeration");
    common(&mut rep);
    core_parts(&mut rep, &["C03", "PANIC"], CK_CORE);
    // the Disconnected clause needs players that really drop: deaths at every moment with every
    // subset of the last packets lost, and explicit disconnects (status oracle only; the
    // timeline of a dropped player is C07's business)
    {
        let t = rep.thorough();
        let mut scns = crate::props::drop::death_scenarios("c03-death", &["1+1", "1+2", "2+1"], if t { &[0, 1, 2, 8] } else { &[0, 2, 8] }, &[0, 2], &[false, true], 0..(if t { 16 } else { 8 }), if t { 2 } else { 1 }, &[(100, 300)], &[false], crate::props::drop::CK_DROP);
        for w in [1usize, 8] {
            for sparse in [false, true] {
                for r in 0..(if t { 12 } else { 6 }) {
                    for lat in [1, 3] {
                        let mut s = base_scn("c03-explicit-disconnect", "1+1", w, 0, sparse, Pred::RepeatLast, Program::Changing, lat);
                        s.script.push(ScriptItem { round: r, node: 0, action: Action::Disconnect { handle: 1 } });
                        s.name = format!("{} disconnect_player(1)@{r}", s.name);
                        s.horizon = r + 2;
                        s.probe = 40;
                        s.checks = crate::props::drop::CK_DROP;
                        scns.push(s);
                    }
                }
            }
        }
        let n = scns.len();
        let cfg = ExploreCfg { k: Some(0), wall: Duration::from_secs(if t { 600 } else { 30 }), ..Default::default() };
        let out = explore(&scns, &cfg, &no_judge);
        rep.absorb("E: players that drop (death at every moment x lost last packets; explicit disconnect at every round): status truthfulness incl. the Disconnected clause", out, &["C03", "PANIC"], json!({"k": 0, "scenarios": n}));
    }
    // inputs handed to spectators carry statuses too: pauses (stopped and polling) around the
    // 60-slot ring, slow spectators, host-side drops
    {
        let t = rep.thorough();
        let mut scns = Vec::new();
        for (tp, w) in [("1+1", 2usize), ("2+1", 8), ("1+1", 0)] {
            for (catchup, max_behind) in [(1usize, 10usize), (5, 1), (70, 59)] {
                let lens: Vec<i32> = if t { (50..=75).collect() } else { vec![57, 59, 60, 61, 62, 63, 70] };
                for len in lens {
                    for polls in [false, true] {
                        let mut s = base_scn("c03-spectator", tp, w, 0, false, Pred::RepeatLast, Program::Changing, 1);
                        let mut sp = SpecSpec::new(20, s.peers[0].addr);
                        sp.catchup = catchup;
                        sp.max_behind = max_behind;
                        sp.pauses = vec![(3, len)];
                        sp.pause_polls = polls;
                        s.specs.push(sp);
                        s.name = format!("{} catchup={catchup} max_behind={max_behind} pause={len} polls={polls}", s.name);
                        s.horizon = 3 + len + 2;
                        s.probe = 80;
                        s.checks = CK_CORE;
                        scns.push(s);
                    }
                }
            }
            for every in [2, 3] {
                let mut s = base_scn("c03-spectator-slow", tp, w, 0, false, Pred::RepeatLast, Program::Changing, 1);
                let mut sp = SpecSpec::new(20, s.peers[0].addr);
                sp.tick_every = every;
                s.specs.push(sp);
                s.name = format!("{} spectator-every={every}", s.name);
                s.horizon = 200;
                s.probe = 20;
                s.checks = CK_CORE;
                scns.push(s);
            }
        }
        let mut deaths = crate::props::drop::death_scenarios("c03-spectator-death", &["1+1", "1+2"], &[0, 2], &[0], &[false], 60..66, 1, &[(100, 300)], &[true], crate::props::drop::CK_DROP);
        scns.append(&mut deaths);
        // a live remote player is dropped explicitly while the host still holds frames of it that
        // have not been relayed to the spectator (zero latency, or the remote's input delay)
        // (two-peer sessions only: with a third peer the explicit drop of a live peer runs into
        // the known finding filed under C10)
        for tp in ["1+1", "1+2"] {
            for w in [0usize, 2, 8] {
                for d in [0usize, 1, 2] {
                    for lat in [0, 1] {
                        for r in if t { 3..12 } else { 4..8 } {
                            if w == 0 && d == 0 {
                                continue;
                            }
                            let mut s = base_scn("c03-spectator-explicit-drop", tp, w, d, false, Pred::RepeatLast, Program::Changing, lat);
                            s.specs.push(SpecSpec::new(20, s.peers[0].addr));
                            let h = s.peers[1].locals[0];
                            s.script.push(ScriptItem { round: r, node: 0, action: Action::Disconnect { handle: h } });
                            s.name = format!("{} disconnect_player({h})@{r}", s.name);
                            s.horizon = r + 2;
                            s.probe = 50;
                            s.checks = crate::props::drop::CK_DROP;
                            scns.push(s);
                        }
                    }
                }
            }
        }
        let n = scns.len();
        let cfg = ExploreCfg { k: Some(0), wall: Duration::from_secs(if t { 600 } else { 30 }), ..Default::default() };
        let out = explore(&scns, &cfg, &no_judge);
        rep.absorb("F: inputs handed to spectators (pauses around the 60-slot ring, slow spectators, host-side drops after the ring has wrapped)", out, &["C03", "PANIC"], json!({"k": 0, "scenarios": n}));
    }
    // statuses handed to spectators when stale and fresh host packets reach them in any order
    // around a drop
    {
        let t = rep.thorough();
        let scns = crate::props::drop::spectator_reorder_scenarios("c03-spectator-reorder");
        let k = if t { 3 } else { 2 };
        let cfg = ExploreCfg { k: Some(k), wall: Duration::from_secs(if t { 600 } else { 30 }), ..Default::default() };
        let out = explore(&scns, &cfg, &no_judge);
        rep.absorb("G: host->spectator Input packets delayed/dropped (reordered) around the round in which the host registers a drop: what the spectator is handed must still be truthful", out, &["C03", "PANIC"], json!({"k": k, "configs": scns.len()}));
    }
    vacuity(&mut rep);
    rep.finish()
}

/// Extra spaces of C02/C04: lockstep, stalls at the prediction limit, spectators.
fn stall_parts(rep: &mut Report, props: &[&str], checks: u32, windows: &[usize], max_extra: i32, thin: bool) {
    let thorough = rep.thorough();
    let judge = &no_judge;
    let mut scns = Vec::new();
    for &w in windows {
        for d in [0usize, 2, 5] {
            for sparse in [false, true] {
                for t in ["1+1", "1+1+1"] {
                    if thin && (d == 5 && sparse || t == "1+1+1" && w % 3 == 1) {
                        continue;
                    }
                    let base = base_scn("stall", t, w, d, sparse, Pred::RepeatLast, Program::Changing, 1);
                    let a = base.peers[0].addr;
                    let b = base.peers[1].addr;
                    let n_len = 3 * w as i32 + max_extra;
                    let starts: Vec<i32> = if thin { vec![0, 2, 7] } else { (0..14).collect() };
                    for start in starts {
                        let mut len = 1;
                        while len <= n_len {
                            let mut s = base.clone();
                            s.name = format!("{} input-outage start={start} len={len}", base.name);
                            // only Input packets b->a are lost: keep-alives and quality reports
                            // still flow, so no timeout interferes however long the outage is
                            s.outages.push(Outage { from: b, to: a, start, len, classes: CLASS_INPUT });
                            s.horizon = start + len + 4;
                            s.probe = 30;
                            s.checks = checks;
                            scns.push(s);
                            len += if thin && len > 2 * w as i32 + 6 { 7 } else { 1 };
                        }
                    }
                }
            }
        }
    }
    // lockstep sessions with desync detection on (nothing may be saved in lockstep, whatever the
    // checksum interval asks for), long enough to pass several reporting frames
    if windows.contains(&0) {
        for interval in [1u32, 3, 10] {
            for d in [0usize, 2] {
                for t in ["1+1", "1+1+1"] {
                    let mut s = base_scn("stall-lockstep-desync", t, 0, d, false, Pred::RepeatLast, Program::Changing, 1);
                    for p in s.peers.iter_mut() {
                        p.desync = interval;
                    }
                    let (a, b) = (s.peers[0].addr, s.peers[1].addr);
                    s.outages.push(Outage { from: b, to: a, start: 14, len: 9, classes: CLASS_INPUT });
                    s.name = format!("{} desync-interval={interval}", s.name);
                    s.horizon = 30;
                    s.probe = 40;
                    s.checks = checks;
                    scns.push(s);
                }
            }
        }
    }
    // lockstep sessions that were also asked for sparse saving (documented as ignored), with the
    // builder's setters called in either order, for longer than the 128-slot input ring
    if windows.contains(&0) {
        for order in [0u8, 1] {
            for d in [0usize, 2] {
                for t in ["1+1", "1+1+1"] {
                    let mut s = base_scn("lockstep-sparse-long", t, 0, d, true, Pred::RepeatLast, Program::Changing, 1);
                    for p in s.peers.iter_mut() {
                        p.builder_order = order;
                    }
                    let (a, b) = (s.peers[0].addr, s.peers[1].addr);
                    s.outages.push(Outage { from: b, to: a, start: 140, len: 9, classes: CLASS_INPUT });
                    s.name = format!("{} builder-order={order}", s.name);
                    s.horizon = 160;
                    s.probe = 200;
                    s.checks = checks;
                    scns.push(s);
                }
            }
        }
    }
    // three peers, one of them drops early; afterwards a still connected peer starves the first
    for &w in windows {
        if thin && w % 3 == 1 {
            continue;
        }
        for sparse in [false, true] {
            if w == 0 && sparse {
                continue;
            }
            let mut base = base_scn("stall-after-drop", "1+1+1", w, 0, sparse, Pred::RepeatLast, Program::Changing, 1);
            for p in base.peers.iter_mut() {
                p.notify_ms = 50;
                p.timeout_ms = 150;
            }
            let (a, b) = (base.peers[0].addr, base.peers[1].addr);
            base.script.push(ScriptItem { round: 2, node: 2, action: Action::Die });
            for len in [w as i32 + 2, 2 * w as i32 + 6, 3 * w as i32 + 25] {
                let mut s = base.clone();
                let start = 40;
                s.outages.push(Outage { from: b, to: a, start, len, classes: CLASS_INPUT });
                s.name = format!("{} third peer dies@2, then input-outage start={start} len={len}", base.name);
                s.horizon = start + len + 4;
                s.probe = 30;
                s.checks = CK_C02 | CK_C03 | CK_C04;
                scns.push(s);
            }
        }
    }
    let n = scns.len();
    let cfg = ExploreCfg { k: Some(0), wall: Duration::from_secs(if thorough { 2400 } else { 40 }), variants: crate::explore::CORE_MENU, variant_every: if thorough { 2 } else { 3 }, ..Default::default() };
    let out = explore(&scns, &cfg, judge);
    rep.absorb("S: one peer starved of remote input (Input-class outage b->a of every length, every start), windows incl. lockstep", out, props,
        json!({"k": 0, "windows": windows, "delays": [0,2,5], "outage_len_max": format!("3w+{max_extra}"), "scenarios": n}));
}

fn lockstep_wait_part(rep: &mut Report, props: &[&str], checks: u32) {
    let judge = &no_judge;
    let mut scns = Vec::new();
    for d in [0usize, 2] {
        for lat in [0, 1, 2] {
            for t in ["1+1", "2+1", "1+1+1"] {
                let mut s = base_scn("lockstep-wait", t, 0, d, false, Pred::RepeatLast, Program::Changing, lat);
                for p in s.peers.iter_mut() {
                    p.use_wait = true;
                }
                s.horizon = 12;
                s.probe = 30;
                s.checks = checks;
                s.fault = packet_faults(2, 5, CLASS_INPUT | CLASS_INPUT_ACK, vec![Fate::Drop, Fate::Delay(2)], 1);
                // explicit timeouts: zero (documented as equivalent to advance_frame), shorter and
                // longer than a frame period
                if d == 0 {
                    for ms in [0u64, 5, 40] {
                        let mut x = s.clone();
                        x.peers.iter_mut().for_each(|p| p.wait_timeout_ms = Some(ms));
                        x.name = format!("{} wait-timeout={ms}ms", x.name);
                        scns.push(x);
                    }
                }
                scns.push(s);
            }
        }
    }
    // alignment sweep: whether the input for the NEXT frame arrives before, during or after the
    // wait of the call that simulates the current one depends on delay, latency and on how far
    // one peer trails the other - every combination, no faults
    let mut align = Vec::new();
    for d in [1usize, 2, 3] {
        for lat in [0, 1, 2, 3] {
            for offset in 0..4 {
                for (tp, ms) in [("1+1", None), ("1+1", Some(40u64)), ("2+1", Some(5))] {
                    let mut s = base_scn("lockstep-wait-align", tp, 0, d, false, Pred::RepeatLast, Program::Changing, lat);
                    for p in s.peers.iter_mut() {
                        p.use_wait = true;
                        p.wait_timeout_ms = ms;
                    }
                    for r in 0..offset {
                        s.scripted_stalls.push((1, 2 + r));
                    }
                    s.name = format!("{} wait-timeout={ms:?} peer 1 trails by {offset}", s.name);
                    s.horizon = 30;
                    s.probe = 20;
                    s.checks = checks;
                    align.push(s);
                }
            }
        }
    }
    {
        let cfg = ExploreCfg { k: Some(0), wall: Duration::from_secs(30), ..Default::default() };
        let out = explore(&align, &cfg, judge);
        rep.absorb("W2: lockstep wait calls, alignment sweep (delay 1..3 x latency 0..3 x one peer trailing by 0..3 ticks): packets that are due in the next round arrive in the middle of the wait", out, props, json!({"k": 0, "scenarios": align.len()}));
    }
    // the wait calls on sessions that are not in lockstep mode return at once
    for (w, ms) in [(2usize, None), (1, Some(40u64)), (8, Some(0))] {
        let mut s = base_scn("lockstep-wait-rollback-session", "1+1", w, 0, false, Pred::RepeatLast, Program::Changing, 1);
        for p in s.peers.iter_mut() {
            p.use_wait = true;
            p.wait_timeout_ms = ms;
        }
        s.name = format!("{} wait-timeout={ms:?}", s.name);
        s.horizon = 12;
        s.probe = 30;
        s.checks = checks;
        s.fault = packet_faults(2, 5, CLASS_INPUT | CLASS_INPUT_ACK, vec![Fate::Drop, Fate::Delay(2)], 1);
        scns.push(s);
    }
    let cfg = ExploreCfg { k: Some(2), wall: Duration::from_secs(if rep.thorough() { 600 } else { 30 }), ..Default::default() };
    let out = explore(&scns, &cfg, judge);
    rep.absorb("W: lockstep sessions driven through advance_frame_with_wait / advance_frame_with_wait_timeout(0, 5, 40 ms) (virtual time advances inside the wait), and the same calls on rollback sessions, k<=2", out, props,
        json!({"k": 2, "configs": scns.len()}));
}

fn spectator_part(rep: &mut Report, props: &[&str], checks: u32) {
    let judge = &no_judge;
    let mut scns = Vec::new();
    for (t, w) in [("1+1", 2usize), ("2+1", 8), ("1+1", 0)] {
        for (catchup, max_behind) in [(1usize, 3usize), (3, 3), (5, 1), (70, 2)] {
            for pause in [8, 3, 5] {
                if pause != 8 && catchup < 5 {
                    continue;
                }
                let mut s = base_scn("core-spectator", t, w, 0, false, Pred::RepeatLast, Program::Changing, 1);
                let mut sp = SpecSpec::new(20, s.peers[0].addr);
                sp.catchup = catchup;
                sp.max_behind = max_behind;
                sp.pauses = vec![(6, pause)];
                sp.pause_polls = pause == 5;
                s.specs.push(sp);
                s.name = format!("{} +spectator catchup={catchup} max_behind={max_behind} pause={pause}", s.name);
                s.horizon = 14;
                s.probe = 40;
                s.checks = checks;
                s.fault = packet_faults(3, 4, CLASS_INPUT | CLASS_INPUT_ACK, vec![Fate::Drop, Fate::Delay(2)], 0);
                scns.push(s);
            }
        }
    }
    let cfg = ExploreCfg { k: Some(if rep.thorough() { 2 } else { 1 }), wall: Duration::from_secs(if rep.thorough() { 600 } else { 30 }), ..Default::default() };
    let out = explore(&scns, &cfg, judge);
    rep.absorb("P: host with a spectator (pause then catch-up); the spectator's request lists are checked in its own frame convention", out, props,
        json!({"k": cfg.k, "configs": scns.len()}));
}

/// Mode S: every fate of every Input/InputAck packet and every stall, to a round depth, with a
/// visited set over world digests.
pub fn stateful_core(rep: &mut Report, props: &[&str], checks: u32, windows: &[usize], depth: i32, wall: u64) {
    let judge = &no_judge;
    let mut scns = Vec::new();
    for &w in windows {
        for sparse in [false, true] {
            if w == 0 && sparse {
                continue;
            }
            let mut s = base_scn("core-S", "1+1", w, 0, sparse, Pred::RepeatLast, Program::Changing, 1);
            s.horizon = 2 + depth;
            s.probe = 0;
            s.checks = checks;
            s.fault = packet_faults(2, depth, CLASS_INPUT | CLASS_INPUT_ACK, vec![Fate::Drop, Fate::Delay(1)], 0);
            scns.push(s);
        }
    }
    let cfg = ExploreCfg { k: None, stateful: true, wall: Duration::from_secs(wall), ..Default::default() };
    let out = explore(&scns, &cfg, judge);
    rep.absorb("M: stateful exploration (mode S): every combination of deliver/drop/hold-one-round for every Input and InputAck packet, to the stated depth, visited set over full world digests", out, props,
        json!({"k": "unbounded", "depth_rounds": depth, "windows": windows, "fates": "deliver,drop,hold+1", "configs": scns.len()}));
}

pub fn c02() -> i32 {
    let mut rep = Report::new("C02", "model_checking");
    common(&mut rep);
    let props = ["C02", "PANIC"];
    core_parts(&mut rep, &props, CK_CORE);
    let t = rep.thorough();
    stall_parts(&mut rep, &props, CK_CORE, &[0, 1, 2, 3, 8], 4, !t);
    lockstep_wait_part(&mut rep, &props, CK_CORE);
    spectator_part(&mut rep, &props, CK_CORE);
    stateful_core(&mut rep, &props, CK_CORE, &[1, 2], if t { 7 } else { 5 }, if t { 900 } else { 25 });
    crate::props::synctest::contract_part(&mut rep, &props);
    vacuity(&mut rep);
    rep.finish()
}

pub fn c04() -> i32 {
    let mut rep = Report::new("C04", "model_checking");
    common(&mut rep);
    let props = ["C04", "PANIC"];
    let t = rep.thorough();
    let windows: Vec<usize> = (0..=12).collect();
    stall_parts(&mut rep, &props, CK_CORE, &windows, if t { 400 } else { 40 }, !t);
    lockstep_wait_part(&mut rep, &props, CK_CORE);
    // k<=1 extra deviation on top of a long starvation, for a few windows
    {
        let mut scns = Vec::new();
        for w in [0usize, 1, 2, 5] {
            for d in [0usize, 2] {
                let mut s = base_scn("stall-D", "1+1", w, d, w % 2 == 1, Pred::RepeatLast, Program::Changing, 1);
                let (a, b) = (s.peers[0].addr, s.peers[1].addr);
                s.outages.push(Outage { from: b, to: a, start: 3, len: 2 * w as i32 + 8, classes: CLASS_INPUT });
                s.horizon = 3 + 2 * w as i32 + 12;
                s.probe = 30;
                s.checks = CK_CORE;
                s.fault = packet_faults(2, 2 * w as i32 + 10, CLASS_RUNNING, vec![Fate::Drop, Fate::Dup, Fate::Delay(2)], 1);
                scns.push(s);
            }
        }
        let k = if t { 2 } else { 1 };
        let cfg = ExploreCfg { k: Some(k), wall: Duration::from_secs(if t { 900 } else { 30 }), ..Default::default() };
        let out = explore(&scns, &cfg, &no_judge);
        rep.absorb("K: starvation plus k further packet/tick deviations", out, &props, json!({"k": k, "configs": scns.len()}));
    }
    // endpoints that go away while the session is far past frame 0: a spectator that dies, is
    // disconnected explicitly or stops acknowledging (disconnected by the 128-frame cap), and a
    // remote player that is disconnected - no load may reach back beyond the window afterwards
    {
        let mut scns = Vec::new();
        for w in [1usize, 2, 8, 12] {
            for sparse in [false, true] {
                for how in 0..4 {
                    let at = 20 + 3 * w as i32;
                    // (with three peers an explicit disconnect of a live remote makes the survivors
                    // disagree about the cut-off: C10's space and its known finding, not used here)
                    let mut s = base_scn("endpoint-lost", if how == 3 { "2+1" } else { "1+1" }, w, 0, sparse, Pred::RepeatLast, Program::Changing, 1);
                    for p in s.peers.iter_mut() {
                        p.notify_ms = 100;
                        p.timeout_ms = 300;
                    }
                    let a = s.peers[0].addr;
                    if how < 3 {
                        let mut sp = SpecSpec::new(20, a);
                        sp.notify_ms = 100;
                        sp.timeout_ms = 300;
                        s.specs.push(sp);
                    }
                    let spec_node = s.peers.len();
                    match how {
                        0 => s.script.push(ScriptItem { round: at, node: 0, action: Action::Disconnect { handle: s.num_players } }),
                        1 => s.script.push(ScriptItem { round: at, node: spec_node, action: Action::Die }),
                        2 => s.outages.push(Outage { from: 20, to: a, start: at, len: 400, classes: CLASS_INPUT_ACK }),
                        _ => s.script.push(ScriptItem { round: at, node: 0, action: Action::Disconnect { handle: 2 } }),
                    }
                    s.name = format!("{} how={} at round {at}", s.name, ["disconnect_player(spectator)", "spectator dies", "spectator stops acknowledging", "disconnect_player(remote)"][how]);
                    s.horizon = at + 4;
                    s.probe = if how == 2 { 200 } else { 60 };
                    s.checks = CK_C02 | CK_C04;
                    scns.push(s);
                }
            }
        }
        let cfg = ExploreCfg { k: Some(0), wall: Duration::from_secs(40), ..Default::default() };
        let out = explore(&scns, &cfg, &no_judge);
        rep.absorb("E: an endpoint goes away far past frame 0 (spectator disconnected explicitly / dies / stops acknowledging; remote player disconnected explicitly)", out, &props, json!({"k": 0, "scenarios": scns.len()}));
    }
    stateful_core(&mut rep, &props, CK_CORE, &[0, 1, 2], if t { 7 } else { 5 }, if t { 900 } else { 25 });
    // non-vacuity: the sessions must really have stalled at the limit and resumed
    let mut stalls = 0u64;
    for p in &rep.parts {
        stalls += p["counters"]["stalls"].as_u64().unwrap_or(0);
    }
    rep.coverage.insert("total_stalled_calls".into(), json!(stalls));
    if stalls == 0 {
        rep.machinery.push("vacuous run: no call ever stalled at the prediction limit".to_owned());
    }
    rep.finish()
}
