//! C05: transient faults never wedge a session. Recovery is judged on a fault-free probe phase
//! after the fault window, against the advance rate of the fault-free run of the same config.
use crate::explore::{explore, ExploreCfg};
use crate::net::{Fate, FaultSpec, Outage};
use crate::props::core::{base_scn, packet_faults};
use crate::report::Report;
use crate::scenario::*;
use crate::types::{Pred, Program};
use crate::wire::*;
use crate::world::{run_scn, Ev, ExecResult, RunOpt, Violation};
use serde_json::json;
use std::collections::HashMap;
use std::sync::Mutex;
use std::time::Duration;

static RATES: Mutex<Option<HashMap<String, Vec<i32>>>> = Mutex::new(None);

pub const RATE_WINDOW: i32 = 20;

fn rate_of(res: &ExecResult, node: usize) -> Option<i32> {
    let nt = &res.nodes[node];
    let last = nt.calls.last()?;
    let from = nt.calls.iter().find(|c| c.round >= last.round - RATE_WINDOW)?;
    Some(last.cur - from.cur)
}

/// Advance rate (frames per RATE_WINDOW rounds, per node) of the fault-free run of this config.
pub fn clean_rates(scn: &Scenario) -> Vec<i32> {
    let mut c = scn.clone();
    c.name = String::new();
    c.outages.clear();
    c.scripted.clear();
    c.script.clear();
    c.fault = FaultSpec::default();
    c.background = Background::default();
    c.horizon = 30;
    c.probe = 60;
    c.handshake_phase = false;
    let key = serde_json::to_string(&c).unwrap();
    if let Some(m) = RATES.lock().unwrap().as_ref() {
        if let Some(r) = m.get(&key) {
            return r.clone();
        }
    }
    let res = run_scn(&c, &Vec::new(), &RunOpt::default());
    let rates: Vec<i32> = (0..res.nodes.len()).map(|i| rate_of(&res, i).unwrap_or(0)).collect();
    let mut g = RATES.lock().unwrap();
    g.get_or_insert_with(HashMap::new).insert(key, rates.clone());
    rates
}

fn v(kind: &str, node: usize, round: i32, detail: String) -> Violation {
    Violation {
        prop: "C05",
        kind: kind.to_owned(),
        detail,
        round,
        node,
    }
}

pub fn judge(scn: &Scenario, res: &ExecResult, _base: Option<&ExecResult>) -> Vec<Violation> {
    let mut out = Vec::new();
    if res.cut.is_some() || res.rounds_run < scn.horizon + scn.probe {
        return out;
    }
    // an idle (stalled) sender only transmits every 200 ms, so the silence a receiver observes
    // can outlast the outage itself by up to that interval plus a round trip
    let round_ms = scn.round_us as f64 / 1000.0;
    let longest_ms = scn.outages.iter().map(|o| o.len).max().unwrap_or(0) as f64 * round_ms;
    let timeout_ms = scn.peers.iter().map(|p| p.timeout_ms).min().unwrap_or(2000) as f64;
    let within_margin = longest_ms + 200.0 + (2.0 * scn.latency as f64 + 3.0) * round_ms >= timeout_ms;
    for (ni, nt) in res.nodes.iter().enumerate() {
        for e in &nt.events {
            if let Ev::Disconnected { addr } = e.2 {
                if within_margin {
                    out.push(v("disconnected-by-outage-within-keepalive-margin", ni, e.0, format!(
                        "Disconnected {{ addr: {addr} }} raised in round {} after an outage of {longest_ms:.0} ms (timeout {timeout_ms:.0} ms): the outage ended before the timeout, but the idle peers only transmit every 200 ms, so the silence lasted past it", e.0)));
                    return out;
                }
                out.push(v("disconnected-by-transient-fault", ni, e.0, format!("Disconnected {{ addr: {addr} }} raised in round {} although every fault was shorter than the timeout", e.0)));
            }
        }
    }
    // "with its input stream intact": whatever a spectator was handed is what its host used
    if !scn.specs.is_empty() && !scn.handshake_phase {
        crate::props::drop::check_spectator_equals_host(scn, res, "C05", &mut out);
    }
    if scn.handshake_phase {
        for (ni, nt) in res.nodes.iter().enumerate() {
            if nt.crashed.is_none() && !nt.calls.last().map(|c| c.running).unwrap_or(false) {
                out.push(v("handshake-never-completes", ni, scn.horizon + scn.probe, format!(
                    "the session is still Synchronizing {} fault-free rounds after the last fault", scn.probe)));
            }
        }
        return out;
    }
    let rates = clean_rates(scn);
    for (ni, nt) in res.nodes.iter().enumerate() {
        if nt.crashed.is_some() {
            continue;
        }
        let Some(r) = rate_of(res, ni) else { continue };
        let want = rates[ni];
        // the reference itself must advance: a session that does not move in a fault-free run of
        // this configuration can never "resume advancing"
        if want <= 0 {
            out.push(v("no-progress-without-faults", ni, 0, format!(
                "the fault-free run of this configuration does not advance at all in {RATE_WINDOW} rounds ({} {ni})", if nt.is_spec { "spectator" } else { "session" })));
            continue;
        }
        if let Ok(path) = std::env::var("C05_RATIO_LOG") {
            use std::io::Write;
            if r < want - 2 {
                if let Ok(mut f) = std::fs::OpenOptions::new().append(true).create(true).open(path) {
                    let _ = writeln!(f, "{r} {want} {} {}", nt.is_spec, scn.name);
                }
            }
        }
        // "resumes advancing": well above what the 200 ms retransmission timer alone would give
        // (one step per 12 rounds); lockstep and window-1 sessions legitimately settle into a
        // slower phase pattern after a fault (observed: 6-7 frames per 20 rounds instead of 10),
        // so equality with the fault-free rate is not demanded
        // a spectator whose 60-frame ring was overrun during the outage reports
        // SpectatorTooFarBehind from then on: documented behaviour (C06), not a silent wedge
        // (only when the outage itself was long enough to overrun the ring - a spectator that
        // falls 60 frames behind AFTER a short outage was wedged by it)
        let long_outage = scn.outages.iter().map(|o| o.len).max().unwrap_or(0) >= 55;
        if long_outage && nt.is_spec && nt.calls.last().map(|c| c.res == crate::world::R_TOO_FAR_BEHIND && c.behind > 60).unwrap_or(false) {
            continue;
        }
        if 3 * r < want || (want > 0 && r <= 0) {
            let last = nt.calls.last().unwrap();
            out.push(v(
                if r <= 0 { "wedged" } else { "limping" },
                ni,
                last.round,
                format!(
                    "{} fault-free rounds after the last fault the {} advanced {r} frames in the last {RATE_WINDOW} rounds (frame {} at round {}); the fault-free run of the same configuration advances {want}",
                    scn.probe,
                    if nt.is_spec { "spectator" } else { "session" },
                    last.cur,
                    last.round
                ),
            ));
        }
    }
    out
}

fn probe_rounds(w: usize, lat: i32) -> i32 {
    // retransmission timer 200 ms = 12 rounds, a round trip, the window, slack, and the window
    // over which the rate is measured
    12 + 2 * lat + w as i32 + 16 + RATE_WINDOW
}

fn with_spec(s: &mut Scenario, spec_window: usize, catchup: usize) {
    let mut sp = SpecSpec::new(20, s.peers[0].addr);
    sp.window = spec_window;
    sp.catchup = catchup;
    sp.max_behind = 4;
    s.specs.push(sp);
    s.name = format!("{} +spectator(w={spec_window},catchup={catchup})", s.name);
}

pub fn c05() -> i32 {
    let mut rep = Report::new("C05", "model_checking");
    let t = rep.thorough();
    rep.rule = "every set of at most k faults (drop/duplicate/delay) on the packets of a window right after synchronisation; every burst outage (subset of link directions x start x length, shorter than the disconnect timeout); stateful exploration of every loss/hold pattern of Input and InputAck packets on the host->spectator link and the two-peer core; the handshake under k faults (its stateful exploration is part of C12). Each execution ends with a fault-free probe phase judged against the advance rate of the fault-free run of the same configuration. non-trivial = trace differs from the fault-free run; distinct = distinct trace fingerprints".to_owned();
    rep.assumptions = vec![
        "recovery = within the probe phase (>= 12 + 2L + w + 16 rounds, then a 20-round measuring window) the session advances at no less than one third of the fault-free rate of its configuration (the 200 ms timer alone gives a sixth or less; lockstep and window-1 sessions legitimately settle into a slower phase pattern after a fault), no Disconnected event, C01's timeline oracle holds throughout".into(),
        "random burst outages of the statement are replaced by the exhaustive grid of (direction set, start, length)".into(),
    ];
    let props = ["C05", "PANIC", "C01"];
    // ---- (a) k faults on the first packets
    {
        let mut scns = Vec::new();
        for (tp, spec) in [("1+1", None), ("2+1", None), ("1+1", Some((0usize, 1usize))), ("1+1", Some((1, 2))), ("1+1", Some((8, 1)))] {
            for w in [0usize, 1, 2, 8] {
                for d in [0usize, 2] {
                    if !t && (d == 2 && w == 1 || spec.is_some() && w != 2 && w != 0) {
                        continue;
                    }
                    let mut s = base_scn("c05-D", tp, w, d, w == 8 || w == 2 && d == 2, Pred::RepeatLast, Program::Changing, 1);
                    if let Some((sw, cu)) = spec {
                        with_spec(&mut s, sw, cu);
                    }
                    s.horizon = if t { 9 } else { 7 };
                    s.probe = probe_rounds(w, 1);
                    s.fault = packet_faults(0, if t { 6 } else { 4 }, CLASS_RUNNING, vec![Fate::Drop, Fate::Dup, Fate::Delay(3)], 0);
                    scns.push(s);
                }
            }
        }
        let k = if t { 3 } else { 2 };
        let n = scns.len();
        let cfg = ExploreCfg { k: Some(k), wall: Duration::from_secs(if t { 2400 } else { 45 }), ..Default::default() };
        let out = explore(&scns, &cfg, &judge);
        rep.absorb("a: at most k faults (drop, duplicate, delay+3) on any packets of the first rounds after synchronisation, all packet classes", out, &props,
            json!({"k": k, "window_rounds": if t {6} else {4}, "configs": n}));
    }
    // ---- (b) burst outages
    {
        let mut scns = Vec::new();
        let max_len = if t { 110 } else { 58 };
        for (tp, spec) in [("1+1", None), ("1+1", Some((0usize, 1usize))), ("1+1", Some((8, 1))), ("2+1", None), ("2+2", Some((8, 3))), ("2+1", Some((2, 5))), ("1+1", Some((8, 8))), ("1+1", Some((2, 70)))] {
            for w in [0usize, 1, 2, 8] {
                for d in [0usize, 2] {
                    // (the last two: catch-up speeds far above max_frames_behind = 4)
                    let big_catchup = spec.map(|x| x.1 >= 8).unwrap_or(false);
                    if !t && (d == 2 && w != 2 || tp == "2+1" && w < 2 || tp == "2+2" && w != 8 || big_catchup && w != 2) {
                        continue;
                    }
                    let base = {
                        let mut s = base_scn("c05-burst", tp, w, d, false, Pred::RepeatLast, Program::Changing, 1);
                        if let Some((sw, cu)) = spec {
                            with_spec(&mut s, sw, cu);
                        }
                        s
                    };
                    let a = base.peers[0].addr;
                    let b = base.peers[1].addr;
                    let mut links: Vec<(u8, u8)> = vec![(a, b), (b, a)];
                    if spec.is_some() {
                        links = vec![(a, 20), (20, a), (b, a)];
                    }
                    let starts: Vec<i32> = if t { (0..12).collect() } else { vec![0, 3, 8] };
                    for &start in &starts {
                        let mut len = 1;
                        while len <= max_len {
                            for mask in 1u32..(1 << links.len()) {
                                // quick: single directions and "all"
                                if !t && mask.count_ones() != 1 && mask != (1 << links.len()) - 1 {
                                    continue;
                                }
                                let mut s = base.clone();
                                for (i, l) in links.iter().enumerate() {
                                    if mask & (1 << i) != 0 {
                                        s.outages.push(Outage { from: l.0, to: l.1, start, len, classes: CLASS_ALL });
                                    }
                                }
                                s.name = format!("{} burst start={start} len={len} links-mask={mask:b}", base.name);
                                s.horizon = start + len + 1;
                                s.probe = probe_rounds(w, 1);
                                // within a keep-alive interval of the timeout a disconnect can
                                // happen (known finding); the timeline oracle has no truth then
                                if len as f64 * 16.667 + 200.0 + 5.0 * 16.667 >= 2000.0 {
                                    s.checks = CK_C02 | CK_C04;
                                }
                                scns.push(s);
                            }
                            // spectators of hosts with several players: every length up to the
                            // 60-frame ring (a burst of frames x players events in one poll)
                            len += if t || len < 24 || (spec.is_some() && base.num_players >= 3 && len < 59) { 1 } else { 4 };
                        }
                    }
                }
            }
        }
        let n = scns.len();
        let cfg = ExploreCfg { k: Some(0), wall: Duration::from_secs(if t { 2400 } else { 45 }), variants: crate::explore::NET_MENU, variant_every: if t { 2 } else { 5 }, ..Default::default() };
        let out = explore(&scns, &cfg, &judge);
        rep.absorb("b: burst outages: every non-empty set of link directions (quick: single directions and all), every start, every length below the timeout", out, &props,
            json!({"k": 0, "max_len_rounds": max_len, "scenarios": n}));
    }
    // ---- (b3) the same over the configuration space the grids above fix: three and four peers
    // (one link, one direction, or one peer cut off from everybody), other latencies, predictors,
    // input programs, large delays, sparse saving, desync detection
    {
        let mut scns = Vec::new();
        // (topology, window, delay, sparse, predictor, program, latency, desync interval)
        let cfgs: Vec<(&str, usize, usize, bool, Pred, Program, i32, u32)> = vec![
            ("1+1+1", 8, 0, false, Pred::RepeatLast, Program::Changing, 1, 0),
            ("1+1+1", 2, 2, true, Pred::Default, Program::Runs, 2, 0),
            ("1+1+1", 0, 1, false, Pred::RepeatLast, Program::Changing, 1, 2),
            ("1+1+1+1", 8, 0, true, Pred::RepeatLast, Program::Sparse, 1, 3),
            ("2+1+1", 3, 4, false, Pred::Default, Program::Changing, 0, 0),
            ("1+1", 8, 4, false, Pred::Default, Program::Runs, 4, 1),
            ("1+1", 2, 0, true, Pred::RepeatLast, Program::Constant, 0, 2),
            ("1+1", 1, 5, false, Pred::RepeatLast, Program::Sparse, 2, 0),
            ("2+2", 0, 3, false, Pred::RepeatLast, Program::Runs, 2, 1),
            ("1+2", 12, 1, true, Pred::Default, Program::Changing, 3, 0),
        ];
        for (ci, (tp, w, d, sparse, pred, prog, lat, desync)) in cfgs.into_iter().enumerate() {
            if !t && ci >= 7 {
                continue;
            }
            let mut base = base_scn("c05-burst-cfg", tp, w, d, sparse, pred, prog, lat);
            base.peers.iter_mut().for_each(|p| p.desync = desync);
            base.name = format!("{} desync={desync}", base.name);
            let addrs: Vec<u8> = base.peers.iter().map(|p| p.addr).collect();
            let n = addrs.len();
            // link sets: one direction of one link; both directions of one link; the last peer cut
            // off from everybody (both directions); the first peer deaf (nothing reaches it)
            let mut sets: Vec<(String, Vec<(u8, u8)>)> = vec![
                ("b->a".into(), vec![(addrs[1], addrs[0])]),
                ("a<->b".into(), vec![(addrs[0], addrs[1]), (addrs[1], addrs[0])]),
            ];
            if n >= 3 {
                let z = addrs[n - 1];
                sets.push(("last-peer-isolated".into(), addrs[..n - 1].iter().flat_map(|&x| [(x, z), (z, x)]).collect()));
                sets.push(("first-peer-deaf".into(), addrs[1..].iter().map(|&x| (x, addrs[0])).collect()));
                sets.push(("a->last only".into(), vec![(addrs[0], z)]));
            }
            let lens: Vec<i32> = if t { (1..=100).step_by(3).collect() } else { vec![1, 3, 8, 14, 30, 57] };
            for (sname, links) in &sets {
                for &start in &[0, 5] {
                    for &len in &lens {
                        if !t && start == 5 && len != 8 && len != 30 {
                            continue;
                        }
                        let mut s = base.clone();
                        for l in links {
                            s.outages.push(Outage { from: l.0, to: l.1, start, len, classes: CLASS_ALL });
                        }
                        s.name = format!("{} burst start={start} len={len} links={sname}", base.name);
                        s.horizon = start + len + 1;
                        s.probe = probe_rounds(w, lat) + d as i32;
                        if len as f64 * 16.667 + 200.0 + (2.0 * lat as f64 + 5.0) * 16.667 >= 2000.0 {
                            s.checks = CK_C02 | CK_C04;
                        }
                        scns.push(s);
                    }
                }
            }
        }
        let n = scns.len();
        let cfg = ExploreCfg { k: Some(0), wall: Duration::from_secs(if t { 1800 } else { 45 }), ..Default::default() };
        let out = explore(&scns, &cfg, &judge);
        rep.absorb("b3: burst outages over ten further configurations (three/four peers with one link, one direction, an isolated peer or a deaf peer; latencies 0..4; both predictors; all input programs; delays up to 5; sparse saving; desync detection)", out, &props,
            json!({"k": 0, "scenarios": n}));
    }
    // ---- (b2) every up/down pattern of the links, round by round, shorter than the timeout
    {
        let mut scns = Vec::new();
        let depth = if t { 16 } else { 11 };
        for (w, spec) in [(0usize, false), (1, false), (2, false), (8, false), (2, true)] {
            for both in [false, true] {
                let mut s = base_scn("c05-link-patterns", "1+1", w, 0, false, Pred::RepeatLast, Program::Changing, 1);
                if spec {
                    with_spec(&mut s, 0, 1);
                }
                let (a, b) = (s.peers[0].addr, s.peers[1].addr);
                s.fault = packet_faults(1, depth, 0, Vec::new(), 0);
                s.fault.link_rounds = if spec {
                    if both { vec![vec![(a, 20), (20, a)]] } else { vec![vec![(20, a)]] }
                } else if both {
                    vec![vec![(b, a), (a, b)]]
                } else {
                    vec![vec![(b, a)]]
                };
                s.name = format!("{} both-directions={both}", s.name);
                s.horizon = 1 + depth;
                s.probe = probe_rounds(w, 1);
                scns.push(s);
            }
        }
        let n = scns.len();
        let cfg = ExploreCfg { k: Some(depth as usize), wall: Duration::from_secs(if t { 1800 } else { 45 }), ..Default::default() };
        let out = explore(&scns, &cfg, &judge);
        rep.absorb("b2: every up/down pattern (all subsets of the rounds of the window) of one link direction or both together, between peers and towards a window-0 spectator", out, &props,
            json!({"k": "all subsets of the window", "window_rounds": depth, "configs": n}));
    }
    // ---- (c) stateful exploration of the input/ack stream
    {
        let mut scns = Vec::new();
        let depth = if t { 8 } else { 5 };
        for w in [0usize, 1, 2] {
            // two-peer core
            let mut s = base_scn("c05-S", "1+1", w, 0, false, Pred::RepeatLast, Program::Changing, 1);
            s.horizon = 1 + depth;
            s.probe = probe_rounds(w, 1);
            s.fault = packet_faults(1, depth, CLASS_INPUT | CLASS_INPUT_ACK, vec![Fate::Drop, Fate::Delay(1)], 0);
            scns.push(s);
            // host -> spectator link only
            let mut s = base_scn("c05-S-spectator", "1+1", 2, 0, false, Pred::RepeatLast, Program::Changing, 1);
            with_spec(&mut s, w, 1);
            s.horizon = 1 + depth + 2;
            s.probe = probe_rounds(w, 1);
            let a = s.peers[0].addr;
            s.fault = packet_faults(1, depth + 2, CLASS_INPUT | CLASS_INPUT_ACK, vec![Fate::Drop, Fate::Delay(1)], 0);
            s.fault.links = vec![(a, 20), (20, a)];
            scns.push(s);
        }
        let n = scns.len();
        let cfg = ExploreCfg { k: None, stateful: true, wall: Duration::from_secs(if t { 1800 } else { 40 }), ..Default::default() };
        let out = explore(&scns, &cfg, &judge);
        rep.absorb("c: stateful exploration: every combination of deliver/drop/hold-one-round for every Input and InputAck packet (two-peer core; host<->spectator link), unbounded number of faults to the stated depth", out, &props,
            json!({"k": "unbounded", "depth_rounds": depth, "configs": n}));
    }
    // ---- (d) the handshake
    {
        let mut scns = Vec::new();
        for (tp, spec) in [("1+1", false), ("1+1", true), ("1+1+1", false)] {
            if !t && tp == "1+1+1" {
                continue;
            }
            for round_ms in [16u64, 100, 250] {
                let mut s = base_scn("c05-handshake", tp, 2, 0, false, Pred::RepeatLast, Program::Changing, 1);
                if spec {
                    with_spec(&mut s, 8, 1);
                }
                s.round_us = round_ms * 1000;
                s.handshake_phase = true;
                s.name = format!("{} round={round_ms}ms", s.name);
                s.horizon = if round_ms == 16 { 14 } else { 12 };
                s.probe = (1600 / round_ms as i32).max(20);
                s.checks = CK_C02;
                s.fault = packet_faults(0, s.horizon, CLASS_HANDSHAKE, vec![Fate::Drop, Fate::Dup, Fate::Delay(2)], 0);
                scns.push(s);
            }
        }
        // outages during the handshake: every length up to 3 s (there is no timeout while
        // synchronizing), every start, each direction and both
        let mut outs = Vec::new();
        for spec in [false, true] {
            for len in 1..=(if t { 30 } else { 16 }) {
                for start in [0, 1, 3] {
                    for dir in 0..3 {
                        if !t && start == 1 && len % 2 == 0 {
                            continue;
                        }
                        let mut s = base_scn("c05-handshake-outage", "1+1", 2, 0, false, Pred::RepeatLast, Program::Changing, 1);
                        if spec {
                            with_spec(&mut s, 8, 1);
                        }
                        s.round_us = 100_000;
                        s.handshake_phase = true;
                        let (a, b) = (s.peers[0].addr, s.peers[1].addr);
                        let (x, y) = if spec { (a, 20) } else { (a, b) };
                        if dir != 1 {
                            s.outages.push(Outage { from: x, to: y, start, len, classes: CLASS_ALL });
                        }
                        if dir != 0 {
                            s.outages.push(Outage { from: y, to: x, start, len, classes: CLASS_ALL });
                        }
                        s.name = format!("{} spectator-link={spec} start={start} len={len} dir={dir}", s.name);
                        s.horizon = start + len + 1;
                        s.probe = 30;
                        s.checks = CK_C02;
                        outs.push(s);
                    }
                }
            }
        }
        // and every up/down pattern of the link over the first rounds (100 ms rounds)
        for both in [false, true] {
            let depth = if t { 14 } else { 10 };
            let mut s = base_scn("c05-handshake-patterns", "1+1", 2, 0, false, Pred::RepeatLast, Program::Changing, 1);
            s.round_us = 100_000;
            s.handshake_phase = true;
            let (a, b) = (s.peers[0].addr, s.peers[1].addr);
            s.fault = packet_faults(0, depth, 0, Vec::new(), 0);
            s.fault.link_rounds = if both { vec![vec![(a, b), (b, a)]] } else { vec![vec![(b, a)]] };
            s.name = format!("{} both={both}", s.name);
            s.horizon = depth;
            s.probe = 30;
            s.checks = CK_C02;
            s.max_points = depth as u32;
            outs.push(s);
        }
        let n_out = outs.len();
        let cfg = ExploreCfg { k: Some(16), wall: Duration::from_secs(if t { 900 } else { 40 }), ..Default::default() };
        let out = explore(&outs, &cfg, &judge);
        rep.absorb("d2: outages of every length (100 ms rounds, up to 3 s) and every up/down pattern of the link during the handshake", out, &props, json!({"k": "all", "scenarios": n_out}));
        let k = if t { 3 } else { 2 };
        let n = scns.len();
        let cfg = ExploreCfg { k: Some(k), wall: Duration::from_secs(if t { 1800 } else { 40 }), ..Default::default() };
        let out = explore(&scns, &cfg, &judge);
        rep.absorb("d: the handshake under at most k faults on SyncRequest/SyncReply packets, at three poll cadences", out, &props, json!({"k": k, "configs": n}));
    }
    rep.finish()
}
