//! C10: surviving peers agree on the cut-off of a dropped player.
use crate::explore::{explore, ExploreCfg};
use crate::net::{Fate, Outage, ScriptedFate};
use crate::props::core::{base_scn, packet_faults};
use crate::report::Report;
use crate::scenario::*;
use crate::types::{Pred, Program};
use crate::wire::*;
use crate::world::{Ev, ExecResult, Violation};
use serde_json::json;
use std::time::Duration;

fn v(kind: &str, node: usize, round: i32, detail: String) -> Violation {
    Violation { prop: "C10", kind: kind.to_owned(), detail, round, node }
}

pub fn judge(scn: &Scenario, res: &ExecResult, _b: Option<&ExecResult>) -> Vec<Violation> {
    let mut out = Vec::new();
    if res.cut.is_some() {
        return out;
    }
    let Some(dead) = scn.script.iter().find(|i| i.action == Action::Die).map(|i| i.node) else { return out };
    let dead_addr = scn.peers[dead].addr;
    let survivors: Vec<usize> = (0..scn.peers.len()).filter(|i| *i != dead).collect();
    // how much of the dead peer's input each survivor held when it reported the drop (its own
    // view; falls back to what the network handed over if it crashed before reporting)
    let held: Vec<i32> = survivors
        .iter()
        .map(|&s| {
            let h = scn.peers[dead].locals[0];
            let nt = &res.nodes[s];
            nt.conn_at_disc.get(h).map(|c| c.1).unwrap_or_else(|| res.delivered_frames.get(&(nt.addr, dead_addr)).copied().unwrap_or(-1))
        })
        .collect();
    let unequal = held.iter().any(|x| *x != held[0]);
    for &s in &survivors {
        if let Some(m) = &res.nodes[s].crashed {
            out.push(v("survivor-panicked", s, res.nodes[s].calls.last().map(|c| c.round).unwrap_or(0), format!(
                "survivor {s} panicked after peer {dead} dropped ({} receipt: the survivors held its input up to frames {held:?}): {m}", if unequal { "unequal" } else { "equal" })));
        }
    }
    if !out.is_empty() {
        return out;
    }
    // all survivors must have reported the drop and kept running afterwards
    for &s in &survivors {
        let nt = &res.nodes[s];
        if !nt.events.iter().any(|e| e.2 == Ev::Disconnected { addr: dead_addr }) {
            return out; // the run was too short for this configuration: nothing to compare yet
        }
        let last = nt.calls.last().unwrap();
        let before = nt.calls.iter().find(|c| c.round >= last.round - 20).map(|c| c.cur).unwrap_or(last.cur);
        if last.cur - before < 4 {
            out.push(v("survivor-stuck", s, last.round, format!("survivor {s} advanced {} frames in the last 20 rounds (frame {})", last.cur - before, last.cur)));
        }
        for e in &nt.events {
            if let Ev::Disconnected { addr } = e.2 {
                if addr != dead_addr {
                    out.push(v("survivor-dropped-a-live-peer", s, e.0, format!("survivor {s} reported Disconnected for the live peer {addr}")));
                }
            }
        }
    }
    if !out.is_empty() {
        return out;
    }
    // pairwise agreement on every frame both have finished with
    for i in 0..survivors.len() {
        for j in i + 1..survivors.len() {
            let (a, b) = (survivors[i], survivors[j]);
            let (na, nb) = (&res.nodes[a], &res.nodes[b]);
            let conf = |n: &crate::world::NodeTrace| n.calls.last().map(|c| c.conf.min(c.cur - 1)).unwrap_or(-1);
            let upto = conf(na).min(conf(nb)).min(na.sims.len() as i32 - 1).min(nb.sims.len() as i32 - 1);
            for f in 0..=upto {
                let (fa, fb) = (&na.sims[f as usize], &nb.sims[f as usize]);
                for &h in &scn.peers[dead].locals {
                    let da = fa.stats[h] == 2;
                    let db = fb.stats[h] == 2;
                    if fa.vals[h] != fb.vals[h] || da != db {
                        out.push(v("survivors-disagree-on-dropped-player", a, 0, format!(
                            "frame {f}, dropped player {h}: survivor {a} finally used ({}, status {}), survivor {b} ({}, status {}); cut-offs {:?} / {:?}",
                            fa.vals[h], fa.stats[h], fb.vals[h], fb.stats[h], na.conn.get(h), nb.conn.get(h))));
                        return out;
                    }
                }
                if fa.hash_after != fb.hash_after {
                    out.push(v("survivors-states-differ", a, 0, format!("game states of survivors {a} and {b} differ after frame {f} (both have confirmed it)")));
                    return out;
                }
            }
        }
    }
    out
}

#[allow(clippy::too_many_arguments)]
fn scenarios(class: &str, tp: &str, windows: &[usize], delays: &[usize], sparse_opts: &[bool], moments: std::ops::Range<i32>, m: usize, timeouts: (u64, u64), lat: i32) -> Vec<Scenario> {
    let mut v = Vec::new();
    for &w in windows {
        for &d in delays {
            for &sparse in sparse_opts {
                for r in moments.clone() {
                    for mask in 0..(1u32 << (2 * m)) {
                        let mut s = base_scn(class, tp, w, d, sparse, Pred::RepeatLast, Program::Changing, lat);
                        for p in s.peers.iter_mut() {
                            p.notify_ms = timeouts.0;
                            p.timeout_ms = timeouts.1;
                        }
                        let dead = s.peers.len() - 1;
                        let c = s.peers[dead].addr;
                        s.script.push(ScriptItem { round: r, node: dead, action: Action::Die });
                        for (li, to) in [s.peers[0].addr, s.peers[1].addr].iter().enumerate() {
                            for i in 0..m {
                                if mask & (1 << (li * m + i)) != 0 {
                                    s.scripted.push(ScriptedFate { from: c, to: *to, round: r - 1 - i as i32, classes: CLASS_INPUT, fate: Fate::Drop });
                                }
                            }
                        }
                        s.name = format!("{} timeouts={}/{} death@{r} lost-mask={mask:b}", s.name, timeouts.0, timeouts.1);
                        let to_rounds = (timeouts.1 * 1000 / s.round_us) as i32 + 3;
                        s.horizon = r + 2;
                        s.probe = to_rounds + 60;
                        s.checks = crate::props::drop::CK_DROP;
                        v.push(s);
                    }
                }
            }
        }
    }
    v
}

pub fn c10() -> i32 {
    let mut rep = Report::new("C10", "fault_enumeration");
    let t = rep.thorough();
    rep.rule = "grid enumeration: three (thorough: also four) peers, the last one dies at every round of a window, every split of its last m Input packets between the two survivor links (each delivered or lost independently), windows x delays x saving modes x timeouts, plus k<=2 deviations on the survivors' own link after the death; non-trivial = trace differs from the deviation-free run (roots count); distinct = trace fingerprints".to_owned();
    rep.assumptions = vec!["agreement is judged on every frame both survivors have confirmed at the end of the run, at least 60 rounds after the timeout".into()];
    let props = ["C10"];
    {
        let scns = if t {
            let mut s = scenarios("c10-split", "1+1+1", &[1, 2, 3, 8], &[0, 2], &[false, true], 2..22, 3, (100, 300), 1);
            s.extend(scenarios("c10-split-default-timeouts", "1+1+1", &[2, 8], &[0], &[false, true], 4..10, 2, (500, 2000), 1));
            s.extend(scenarios("c10-split-4peers", "2+1+1", &[2, 8], &[0, 2], &[false], 3..9, 2, (100, 300), 1));
            s.extend(scenarios("c10-split-L2", "1+1+1", &[2, 8], &[0], &[false, true], 3..9, 3, (100, 300), 2));
            s
        } else {
            let mut s = scenarios("c10-split", "1+1+1", &[1, 2, 3, 8], &[0, 2], &[false, true], 3..9, 2, (100, 300), 1);
            s.extend(scenarios("c10-split-L2", "1+1+1", &[2, 8], &[0], &[false], 4..7, 2, (100, 300), 2));
            s
        };
        // the same splits with a slow link between the survivors: they still owe each other
        // corrections around the cut-off when the drop is registered
        let mut scns = scns;
        let slow: Vec<Scenario> = scenarios("c10-split-slow-survivor-link", "1+1+1", if t { &[2, 3, 8] } else { &[3, 8] }, &[0], &[false, true], if t { 3..12 } else { 5..9 }, if t { 2 } else { 1 }, (100, 300), 1)
            .into_iter()
            .flat_map(|s| {
                [3, 5].into_iter().map(move |l| {
                    let mut x = s.clone();
                    let (a, b) = (x.peers[0].addr, x.peers[1].addr);
                    x.link_lat = vec![(a, b, l), (b, a, l)];
                    x.name = format!("{} survivor-link-latency={l}", x.name);
                    x
                })
            })
            .collect();
        scns.extend(slow);
        // equal receipt at the drop, but a straggler of the dead peer reaches ONE survivor after
        // that survivor has registered the drop (within the 5 s the endpoint still listens)
        let stragglers: Vec<Scenario> = scenarios("c10-split-straggler", "1+1+1", if t { &[1, 2, 8] } else { &[2, 8] }, &[0], &[false, true], if t { 3..9 } else { 4..7 }, 0, (100, 300), 1)
            .into_iter()
            .flat_map(|s| {
                [(0usize, 19), (0, 25), (1, 21), (0, 40)].into_iter().map(move |(to_survivor, late_by)| {
                    let mut x = s.clone();
                    let dead = x.peers.len() - 1;
                    let c = x.peers[dead].addr;
                    let to = x.peers[to_survivor].addr;
                    let death = x.script.iter().find(|i| i.action == Action::Die).map(|i| i.round).unwrap_or(5);
                    // the last two packets of the dead peer towards that survivor arrive late; the
                    // same packets towards the other survivor are lost, so both held equal amounts
                    for back in 1..=2 {
                        x.scripted.push(ScriptedFate { from: c, to, round: death - back, classes: CLASS_INPUT, fate: Fate::Delay(late_by) });
                        let other = x.peers[1 - to_survivor].addr;
                        x.scripted.push(ScriptedFate { from: c, to: other, round: death - back, classes: CLASS_INPUT, fate: Fate::Drop });
                    }
                    x.name = format!("{} straggler to survivor {to_survivor} late by {late_by}", x.name);
                    x
                })
            })
            .collect();
        scns.extend(stragglers);
        // equal receipt, and the network delivers a second copy of the survivors' own input packets
        // from around the death much later, after both have registered the drop (the statuses those
        // old packets carry are older than what the receiver already knows)
        let old_dups: Vec<Scenario> = scenarios("c10-split-old-duplicate", "1+1+1", &[2, 8], &[0], &[false, true], 5..8, 0, (100, 300), 1)
            .into_iter()
            .flat_map(|s| {
                [22, 30, 45].into_iter().map(move |late_by| {
                    let mut x = s.clone();
                    let (a, b) = (x.peers[0].addr, x.peers[1].addr);
                    let death = x.script.iter().find(|i| i.action == Action::Die).map(|i| i.round).unwrap_or(5);
                    for r in death - 4..death + 3 {
                        x.scripted.push(ScriptedFate { from: a, to: b, round: r, classes: CLASS_INPUT, fate: Fate::DupLate(late_by) });
                        x.scripted.push(ScriptedFate { from: b, to: a, round: r, classes: CLASS_INPUT, fate: Fate::DupLate(late_by + 2) });
                    }
                    x.name = format!("{} survivors' packets of rounds {}..{} delivered again {late_by} rounds later", x.name, death - 4, death + 2);
                    x
                })
            })
            .collect();
        scns.extend(old_dups);
        // long after the drop (the dead peer's endpoint has been shut down for good after 5 s) a
        // survivor's application calls disconnect_player for the dropped player again: refused,
        // and both survivors keep running in agreement
        let repeats: Vec<Scenario> = scenarios("c10-split-late-repeat", "1+1+1", &[2, 8], &[0], &[false, true], 4..6, 0, (100, 300), 1)
            .into_iter()
            .map(|mut x| {
                let dead = x.peers.len() - 1;
                let h = x.peers[dead].locals[0];
                let death = x.script.iter().find(|i| i.action == Action::Die).map(|i| i.round).unwrap_or(5);
                x.script.push(ScriptItem { round: death + 340, node: 0, action: Action::Disconnect { handle: h } });
                x.probe = 340 + 60;
                x.name = format!("{} survivor 0 repeats disconnect_player({h}) 340 rounds after the death", x.name);
                x
            })
            .collect();
        scns.extend(repeats);
        // equal receipt on the wire, but one survivor's packets (and with them its acknowledgements)
        // do not reach the dying peer for the last n rounds of its life: the dying peer runs on to
        // its prediction threshold and keeps encoding its input against the last frame that
        // survivor acknowledged; the survivor must still hold that reference frame to decode what
        // the other survivor decodes
        let mut ack_outage: Vec<Scenario> = Vec::new();
        for (timeouts, ns) in [((100u64, 300u64), vec![4, 8, 12, 15]), ((500, 2000), vec![10, 20, 40])] {
            for n in ns {
                for lat in [1, 2] {
                    if !t && lat == 2 && n != 12 && n != 20 {
                        continue;
                    }
                    for x in scenarios("c10-split-ack-outage", "1+1+1", &[3, 8], &[0, 2, 3], &[false, true], 6 + n..7 + n, 0, timeouts, lat) {
                        // only configurations in which the survivor must still hold the reference
                        // frame: the dying peer runs at most window + delay frames past what was
                        // acknowledged (plus the latency), and a receiver keeps 2 x window frames;
                        // beyond that the last packets are legitimately undecodable for that
                        // survivor, the survivors hold different amounts, and the run ends in
                        // the known finding about unequal receipt
                        if x.peers[0].delay + lat as usize + 2 > x.peers[0].window {
                            continue;
                        }
                        for surv in 0..2usize {
                            let mut x = x.clone();
                            let dead = x.peers.len() - 1;
                            let (from, to) = (x.peers[surv].addr, x.peers[dead].addr);
                            x.outages.push(Outage { from, to, start: 6, len: n + 2, classes: CLASS_ALL });
                            x.name = format!("{} nothing from survivor {surv} reaches the dying peer in its last {n} rounds", x.name);
                            ack_outage.push(x);
                        }
                    }
                }
            }
        }
        scns.extend(ack_outage);
        // no stall before the drop is registered: window larger than the timeout, asymmetric
        // slow link between the survivors (one still owes the other corrections around the
        // cut-off when Disconnected is raised)
        let fast: Vec<Scenario> = scenarios("c10-split-no-stall", "1+1+1", if t { &[8, 12] } else { &[12] }, &[0], &[false, true], if t { 22..34 } else { 24..28 }, 1, (50, 100), 1)
            .into_iter()
            .flat_map(|s| {
                [(1, 8), (8, 1), (3, 9)].into_iter().map(move |(lab, lba)| {
                    let mut x = s.clone();
                    let (a, b) = (x.peers[0].addr, x.peers[1].addr);
                    x.link_lat = vec![(a, b, lab), (b, a, lba)];
                    x.name = format!("{} survivor-link-latency a->b={lab} b->a={lba}", x.name);
                    x
                })
            })
            .collect();
        scns.extend(fast);
        let scns = if t {
            let mut extra: Vec<Scenario> = Vec::new();
            for s in scns.iter().filter(|s| s.name.starts_with("c10-split:") && s.link_lat.is_empty()) {
                for (prog, pred) in [(Program::Runs, Pred::RepeatLast), (Program::Changing, Pred::Default)] {
                    let mut x = s.clone();
                    x.program = prog;
                    x.pred = pred;
                    x.name = format!("{} [{prog:?} {pred:?}]", s.name);
                    extra.push(x);
                }
            }
            let mut all = scns;
            all.extend(extra);
            all
        } else {
            scns
        };
        let n = scns.len();
        let cfg = ExploreCfg { k: Some(0), wall: Duration::from_secs(if t { 1800 } else { 40 }), variants: crate::explore::NET_MENU, variant_every: if t { 1 } else { 3 }, ..Default::default() };
        let out = explore(&scns, &cfg, &judge);
        rep.absorb("every moment of death x every split of the last m packets between the survivors", out, &props, json!({"k": 0, "scenarios": n}));
    }
    {
        let mut scns = scenarios("c10-split-D", "1+1+1", &[2, 8], &[0], &[false], 5..6, 1, (100, 300), 1);
        for s in scns.iter_mut() {
            let (a, b) = (s.peers[0].addr, s.peers[1].addr);
            s.fault = packet_faults(5, 22, CLASS_INPUT, vec![Fate::Drop, Fate::Delay(4)], 0);
            s.fault.links = vec![(a, b), (b, a)];
            s.horizon = 28;
            s.probe = 70;
        }
        let k = if t { 2 } else { 1 };
        let n = scns.len();
        let cfg = ExploreCfg { k: Some(k), wall: Duration::from_secs(if t { 1200 } else { 30 }), ..Default::default() };
        let out = explore(&scns, &cfg, &judge);
        rep.absorb("at most k deviations (drop, delay+4) on the Input packets the survivors exchange from the death until after the timeout (this decides how late the gossip about the cut-off arrives)", out, &props, json!({"k": k, "configs": n}));
    }
    rep.finish()
}
