//! C14: the input codec. Round trips over word families, totality of decode over all short byte
//! strings (in child processes, under a counting allocator).
use crate::report::{Finding, Report};
use ggrs::verif_hooks::codec::{decode, encode};
use serde_json::json;
use std::io::Write;
use std::panic::{catch_unwind, AssertUnwindSafe};
use std::sync::atomic::{AtomicU64, Ordering};
use std::sync::Mutex;

/// What a legitimate packet can expand to: 128 pending frames x (2-byte length + 65535 bytes).
pub const LEGIT_EXPANSION: usize = 128 * (2 + 65535);
pub const ALLOC_BOUND: usize = 4 * LEGIT_EXPANSION;
/// Single requests above this abort the child (the call is then recorded as a violation).
const CEILING: usize = 1 << 30;

fn words(alpha: &[u8], max_len: usize) -> Vec<Vec<u8>> {
    let mut out: Vec<Vec<u8>> = vec![Vec::new()];
    let mut level: Vec<Vec<u8>> = vec![Vec::new()];
    for _ in 0..max_len {
        let mut next = Vec::new();
        for w in &level {
            for a in alpha {
                let mut x = w.clone();
                x.push(*a);
                next.push(x);
            }
        }
        out.extend(next.iter().cloned());
        level = next;
    }
    out
}

fn roundtrip(reference: &[u8], seq: &[Vec<u8>]) -> Result<(), String> {
    let r = catch_unwind(AssertUnwindSafe(|| {
        let enc = encode(reference, seq.iter());
        (decode(reference, &enc), enc)
    }));
    match r {
        Err(p) => Err(format!("panic: {}", crate::world::panic_msg(p))),
        Ok((Err(e), enc)) => Err(format!("decode(encode(..)) returned Err({e}); encoded = {enc:02x?}")),
        Ok((Ok(dec), enc)) => {
            if dec.as_slice() == seq {
                Ok(())
            } else {
                Err(format!("decode(encode(..)) = {dec:02x?} (encoded {enc:02x?})"))
            }
        }
    }
}

fn rt_finding(reference: &[u8], seq: &[Vec<u8>], why: &str, class: &str) -> Finding {
    let short: Vec<String> = seq.iter().map(|s| if s.len() > 16 { format!("{} bytes starting {:02x?}", s.len(), &s[..8]) } else { format!("{s:02x?}") }).collect();
    Finding {
        prop: "C14".into(),
        kind: "roundtrip".into(),
        detail: format!("reference {reference:02x?}, inputs {short:?}: {why}"),
        class: class.into(),
        replay: json!({"engine": "codec-roundtrip", "reference": reference, "inputs": seq}),
    }
}

fn roundtrip_sweep(rep: &mut Report) {
    let thorough = rep.thorough();
    let alpha: Vec<u8> = if thorough { vec![0x00, 0xFF, 0x01, 0x80] } else { vec![0x00, 0xFF, 0x5A] };
    let ilen = if thorough { 3 } else { 2 };
    let inputs = words(&alpha, ilen);
    let refs = words(&alpha, ilen);
    let n_in = inputs.len();
    // sequences of up to 3 inputs, by index triple; usize::MAX marks "absent"
    let total_seq: u64 = 1 + n_in as u64 + (n_in * n_in) as u64 + (n_in * n_in * n_in) as u64;
    let next = AtomicU64::new(0);
    let found: Mutex<Vec<Finding>> = Mutex::new(Vec::new());
    let count = AtomicU64::new(0);
    let encs: Mutex<std::collections::HashSet<u64>> = Mutex::new(Default::default());
    std::thread::scope(|s| {
        for _ in 0..16 {
            s.spawn(|| {
                let mut local_encs = std::collections::HashSet::new();
                loop {
                    let ri = next.fetch_add(1, Ordering::Relaxed) as usize;
                    if ri >= refs.len() {
                        break;
                    }
                    let reference = &refs[ri];
                    let mut n = 0u64;
                    let mut check = |seq: &[Vec<u8>]| {
                        n += 1;
                        if let Err(why) = roundtrip(reference, seq) {
                            let mut f = found.lock().unwrap();
                            if f.len() < 50 {
                                f.push(rt_finding(reference, seq, &why, "small-words"));
                            }
                        }
                    };
                    check(&[]);
                    for a in &inputs {
                        check(&[a.clone()]);
                        for b in &inputs {
                            check(&[a.clone(), b.clone()]);
                            for c in &inputs {
                                check(&[a.clone(), b.clone(), c.clone()]);
                            }
                        }
                    }
                    // distinct encodings seen for this reference (sampled on pairs only)
                    for a in &inputs {
                        for b in &inputs {
                            let e = encode(reference, [a.clone(), b.clone()].iter());
                            let mut h = 0xcbf2_9ce4_8422_2325u64;
                            crate::types::fnv(&mut h, &e);
                            local_encs.insert(h);
                        }
                    }
                    count.fetch_add(n, Ordering::Relaxed);
                }
                encs.lock().unwrap().extend(local_encs);
            });
        }
    });
    let n = count.load(Ordering::Relaxed);
    for f in found.into_inner().unwrap() {
        rep.add_finding(f);
    }
    rep.evaluations += n;
    let distinct = encs.into_inner().unwrap();
    rep.nontrivial.extend(distinct.iter().copied());
    rep.fingerprints.extend(distinct.iter().copied());
    rep.samples.push(json!({"roundtrip": {"reference": [0xFFu8, 0x00], "inputs": [[0x00u8], [], [0xFFu8, 0xFF]]}}));
    rep.parts.push(json!({"part": "round trip over small words", "alphabet": alpha, "max_input_len": ilen, "max_inputs": 3, "references": refs.len(), "sequences_per_reference": total_seq, "pairs": n, "distinct_encodings_of_two_input_sequences": distinct.len()}));

    // run-length stress family
    let mut fam: Vec<(Vec<u8>, Vec<Vec<u8>>)> = Vec::new();
    let max_n = if thorough { 300 } else { 70 };
    for n in 0..=max_n {
        let z = vec![0u8; n];
        let f = vec![0xFFu8; n];
        let zf: Vec<u8> = (0..n).map(|i| if i % 2 == 0 { 0 } else { 0xFF }).collect();
        for base in [&z, &f, &zf] {
            for reference in [vec![], vec![0u8; 4], vec![0xFFu8; n.min(9)], vec![0x5A; 3]] {
                fam.push((reference.clone(), vec![base.clone()]));
                fam.push((reference.clone(), vec![base.clone(), base.clone()]));
                fam.push((reference.clone(), vec![base.clone(), z.clone(), f.clone()]));
            }
            // one literal byte at every position (thinned for long runs in quick)
            let step = if thorough || n < 20 { 1 } else { 7 };
            let mut pos = 0;
            while pos < n {
                let mut x = (*base).clone();
                x[pos] = 0x5A;
                fam.push((vec![], vec![x.clone()]));
                fam.push((vec![0xFF; 2], vec![z.clone(), x]));
                pos += step;
            }
        }
    }
    // long sequences (a packet carries up to a window of 128 pending inputs, and a few more):
    // every length 1..=140, several value patterns in which consecutive inputs differ
    let max_seq = if thorough { 140 } else { 140 };
    for n in 1..=max_seq {
        for pat in 0..4u32 {
            for ilen in [1usize, 2, 4] {
                let seq: Vec<Vec<u8>> = (0..n)
                    .map(|i| {
                        (0..ilen)
                            .map(|j| match pat {
                                0 => (i as u32 * 7 + j as u32) as u8,
                                1 => if (i / 3) % 2 == 0 { 0x00 } else { 0xFF },
                                2 => ((i as u32).wrapping_mul(2654435761) >> (8 * j as u32)) as u8,
                                _ => if i % 5 == 4 { 0 } else { (i % 3) as u8 + 1 },
                            })
                            .collect()
                    })
                    .collect();
                fam.push((vec![0u8; ilen], seq.clone()));
                if n % 10 == 0 {
                    fam.push((vec![0xA5; 3], seq));
                }
            }
        }
    }
    for size in [65534usize, 65535] {
        for fill in [0x00u8, 0xFF, 0x5A] {
            let big = vec![fill; size];
            fam.push((vec![], vec![big.clone()]));
            fam.push((vec![fill; 7], vec![vec![1, 2, 3], big.clone(), vec![]]));
            let mut mixed = big.clone();
            mixed[size / 2] = 0x11;
            mixed[size - 1] = 0x00;
            fam.push((big.clone(), vec![mixed]));
        }
    }
    let nf = fam.len();
    let next = AtomicU64::new(0);
    let found: Mutex<Vec<Finding>> = Mutex::new(Vec::new());
    std::thread::scope(|s| {
        for _ in 0..16 {
            s.spawn(|| loop {
                let i = next.fetch_add(1, Ordering::Relaxed) as usize;
                if i >= fam.len() {
                    break;
                }
                if let Err(why) = roundtrip(&fam[i].0, &fam[i].1) {
                    let mut f = found.lock().unwrap();
                    if f.len() < 50 {
                        f.push(rt_finding(&fam[i].0, &fam[i].1, &why, "run-length-family"));
                    }
                }
            });
        }
    });
    for f in found.into_inner().unwrap() {
        rep.add_finding(f);
    }
    rep.evaluations += nf as u64;
    rep.parts.push(json!({"part": "round trip over the run-length stress family (0x00^n, 0xFF^n, (00 FF)^n, a literal at every position, sizes 65534/65535) and long sequences of 1..=140 inputs", "max_n": max_n, "cases": nf}));

    // the codec is a pure function: what one call decoded (or rejected) must not change what the
    // next call on the same thread returns. Every byte string of <= 2 bytes (and the small members
    // of the structured family) is decoded first - accepted or rejected - and then five fixed
    // round trips of different shapes must still come out right, all on one thread.
    let probes: Vec<(Vec<u8>, Vec<Vec<u8>>)> = vec![
        (vec![], vec![vec![1u8], vec![2], vec![2], vec![7]]),
        (vec![0u8; 2], vec![vec![3u8, 4], vec![0, 0], vec![0xFF, 0xFF]]),
        (vec![0x5A], vec![vec![], vec![9u8; 40], vec![0u8; 70]]),
        (vec![0xFFu8; 5], vec![vec![0xFFu8; 5]; 12]),
        (vec![0u8; 5], (0..9u8).map(|i| vec![i, i ^ 0x5A, 0, 0xFF, i.wrapping_mul(31)]).collect()),
    ];
    let mut priors: Vec<Vec<u8>> = words(&(0..=255u8).collect::<Vec<u8>>(), 2);
    priors.extend(structured_family().into_iter().filter(|p| p.len() <= 24 && crate::props::malformed_announced(p) <= 1 << 20));
    for (r, sq) in &probes {
        priors.push(encode(r, sq.iter()));
    }
    let mut carried = 0u64;
    let mut first_bad: Option<Finding> = None;
    for prior in &priors {
        let _ = catch_unwind(AssertUnwindSafe(|| decode(&[], prior).map(|v| v.len())));
        for (r, sq) in &probes {
            carried += 1;
            if let Err(why) = roundtrip(r, sq) {
                if first_bad.is_none() {
                    let mut f = rt_finding(r, sq, &format!("after a call decode([], {prior:02x?}) on the same thread: {why}"), "state-carried-between-calls");
                    f.replay = json!({"engine": "codec-roundtrip-after", "prior": prior, "reference": r, "inputs": sq});
                    first_bad = Some(f);
                }
            }
        }
        if first_bad.is_some() {
            break;
        }
    }
    if let Some(f) = first_bad {
        rep.add_finding(f);
    }
    rep.evaluations += carried;
    rep.parts.push(json!({"part": "purity: five fixed round trips after every prior decode call on the same thread", "prior_calls": priors.len(), "round_trips": carried}));
}

// ---------------------------------------------------------------- totality sweep (children)

const REDUCED: [u8; 5] = [0x00, 0x01, 0x7F, 0x80, 0xFF];

/// Longer decoder inputs built from run-length syntax: k repetitions of one run descriptor, for
/// run descriptors around the size limits, optionally followed by a truncated / dangling tail.
pub fn structured_family() -> Vec<Vec<u8>> {
    fn varint(mut v: u64) -> Vec<u8> {
        let mut out = Vec::new();
        loop {
            let b = (v & 127) as u8;
            v >>= 7;
            if v == 0 {
                out.push(b);
                break;
            }
            out.push(b | 128);
        }
        out
    }
    let legit = LEGIT_EXPANSION as u64;
    let mut runs: Vec<Vec<u8>> = Vec::new();
    for len in [1u64, 127, 128, 65_535, 65_537, legit / 4, legit / 2, legit - 1, legit, legit + 1, 2 * legit, 1 << 27] {
        runs.push(varint((len << 2) | 1)); // run of 0x00
        runs.push(varint((len << 2) | 3)); // run of 0xFF
    }
    // run lengths at the boundaries of the varint groups and of the integer widths a decoder
    // might use (a five-group varint carries 35 bits, three more than a u32)
    for len in [(1u64 << 28) - 1, 1 << 28, 1 << 29, (1 << 30) - 1, 1 << 30, (1 << 30) + 1, 1 << 31, 1 << 32, (1 << 33) - 1] {
        runs.push(varint((len << 2) | 1));
        // a literal run of that length without the bytes
        runs.push(varint(len << 1));
    }
    // the same small run written with padding groups (non-canonical varints of 2..6 groups)
    for groups in 2..=6usize {
        let mut v = vec![0x85u8];
        for _ in 0..groups - 2 {
            v.push(0x80);
        }
        v.push(0x00);
        runs.push(v);
    }
    // literal runs (the bytes follow)
    for len in [1u64, 3, 200] {
        let mut v = varint(len << 1);
        v.extend(std::iter::repeat(0x5Au8).take(len as usize));
        runs.push(v);
    }
    let mut out = Vec::new();
    for r in &runs {
        for k in [1usize, 2, 3, 4, 5, 8, 16, 40, 129] {
            let mut s = Vec::new();
            for _ in 0..k {
                s.extend_from_slice(r);
            }
            out.push(s.clone());
            let mut t = s.clone();
            t.push(0x80); // dangling varint
            out.push(t);
            let mut u = s;
            u.extend_from_slice(&[0x06, 0x01]); // literal run announcing more bytes than follow
            out.push(u);
        }
    }
    // mixtures: every ordered pair of run descriptors, twice
    for a in &runs {
        for b in &runs {
            let mut s = Vec::new();
            for _ in 0..2 {
                s.extend_from_slice(a);
                s.extend_from_slice(b);
            }
            out.push(s);
        }
    }
    out
}

pub fn space_size(max_full: usize, reduced: bool) -> u64 {
    let mut n = 0u64;
    for l in 0..=max_full {
        n += 256u64.pow(l as u32);
    }
    if reduced {
        n += 5u64.pow(4) + 5u64.pow(5);
        n += structured_family().len() as u64;
    }
    n
}

pub fn nth_string(mut i: u64, max_full: usize) -> Vec<u8> {
    for l in 0..=max_full {
        let c = 256u64.pow(l as u32);
        if i < c {
            let mut v = vec![0u8; l];
            for k in (0..l).rev() {
                v[k] = (i % 256) as u8;
                i /= 256;
            }
            return v;
        }
        i -= c;
    }
    for l in [4usize, 5] {
        let c = 5u64.pow(l as u32);
        if i < c {
            let mut v = vec![0u8; l];
            for k in (0..l).rev() {
                v[k] = REDUCED[(i % 5) as usize];
                i /= 5;
            }
            return v;
        }
        i -= c;
    }
    let fam = structured_family();
    if (i as usize) < fam.len() {
        return fam[i as usize].clone();
    }
    panic!("index out of the string space");
}

const REFS: [&[u8]; 3] = [&[], &[0x5A], &[0x00, 0xFF, 0x01, 0x80]];

/// Child process: evaluates indices [start, end), writing the index it is about to evaluate to
/// the progress file first. Output: one JSON object on stdout.
pub fn worker(args: &[String]) -> i32 {
    use std::os::unix::fs::FileExt;
    let start: u64 = args[0].parse().unwrap();
    let end: u64 = args[1].parse().unwrap();
    let max_full: usize = args[2].parse().unwrap();
    let progress = std::fs::OpenOptions::new().write(true).create(true).truncate(false).open(&args[3]).unwrap();
    let (mut ok, mut err, mut panics, mut over) = (0u64, 0u64, 0u64, 0u64);
    let mut peak_max = 0usize;
    let mut viol: Vec<serde_json::Value> = Vec::new();
    let mut outcomes = std::collections::HashSet::new();
    for i in start..end {
        progress.write_all_at(&i.to_le_bytes(), 0).unwrap();
        let s = nth_string(i, max_full);
        for reference in REFS {
            let base = crate::alloc::begin(CEILING);
            let r = catch_unwind(AssertUnwindSafe(|| decode(reference, &s)));
            let peak = crate::alloc::end(base);
            peak_max = peak_max.max(peak);
            let mut h = 0xcbf2_9ce4_8422_2325u64;
            match &r {
                Ok(Ok(v)) => {
                    ok += 1;
                    crate::types::fnv(&mut h, &[1, v.len().min(255) as u8]);
                    crate::types::fnv(&mut h, &(v.iter().map(Vec::len).sum::<usize>().min(1 << 20) as u32).to_le_bytes());
                }
                Ok(Err(e)) => {
                    err += 1;
                    crate::types::fnv(&mut h, &[2]);
                    crate::types::fnv(&mut h, e.as_bytes());
                }
                Err(_) => {
                    panics += 1;
                    crate::types::fnv(&mut h, &[3]);
                }
            }
            outcomes.insert(h);
            if let Err(p) = r {
                if viol.len() < 20 {
                    viol.push(json!({"kind": "decode-panic", "bytes": s, "reference": reference, "detail": crate::world::panic_msg(p)}));
                }
            } else if peak > ALLOC_BOUND {
                over += 1;
                if viol.len() < 20 {
                    viol.push(json!({"kind": "decode-alloc", "bytes": s, "reference": reference, "detail": format!("peak allocation {peak} bytes > bound {ALLOC_BOUND}")}));
                }
            }
        }
    }
    progress.write_all_at(&u64::MAX.to_le_bytes(), 0).unwrap();
    let out = json!({"ok": ok, "err": err, "panics": panics, "over": over, "peak_max": peak_max, "viol": viol, "outcomes": outcomes.into_iter().collect::<Vec<u64>>()});
    let mut so = std::io::stdout();
    let _ = writeln!(so, "{out}");
    0
}

fn totality_sweep(rep: &mut Report, max_full: usize) {
    let total = space_size(max_full, true);
    let exe = std::env::current_exe().expect("current exe");
    let n_chunks = 64u64;
    let chunk = total.div_ceil(n_chunks);
    let next = AtomicU64::new(0);
    let agg: Mutex<(u64, u64, u64, u64, usize, Vec<serde_json::Value>, std::collections::HashSet<u64>, u64)> =
        Mutex::new((0, 0, 0, 0, 0, Vec::new(), Default::default(), 0));
    let scratch = std::env::temp_dir().join(format!("ggrs-mc-c14-{}", std::process::id()));
    let _ = std::fs::create_dir_all(&scratch);
    std::thread::scope(|s| {
        for _ in 0..16 {
            s.spawn(|| loop {
                let c = next.fetch_add(1, Ordering::Relaxed);
                if c >= n_chunks {
                    break;
                }
                let mut start = c * chunk;
                let end = ((c + 1) * chunk).min(total);
                while start < end {
                    let pf = scratch.join(format!("p{c}"));
                    let _ = std::fs::write(&pf, 0u64.to_le_bytes());
                    let out = std::process::Command::new(&exe)
                        .args(["worker-c14", &start.to_string(), &end.to_string(), &max_full.to_string(), pf.to_str().unwrap()])
                        .output()
                        .expect("spawn worker");
                    let mut a = agg.lock().unwrap();
                    if out.status.success() {
                        if let Ok(v) = serde_json::from_slice::<serde_json::Value>(&out.stdout) {
                            a.0 += v["ok"].as_u64().unwrap_or(0);
                            a.1 += v["err"].as_u64().unwrap_or(0);
                            a.2 += v["panics"].as_u64().unwrap_or(0);
                            a.3 += v["over"].as_u64().unwrap_or(0);
                            a.4 = a.4.max(v["peak_max"].as_u64().unwrap_or(0) as usize);
                            for x in v["viol"].as_array().cloned().unwrap_or_default() {
                                if a.5.len() < 200 {
                                    a.5.push(x);
                                }
                            }
                            for x in v["outcomes"].as_array().cloned().unwrap_or_default() {
                                a.6.insert(x.as_u64().unwrap_or(0));
                            }
                            start = end;
                        } else {
                            a.5.push(json!({"kind": "machinery", "detail": "worker output not JSON"}));
                            start = end;
                        }
                    } else {
                        // the child died: the progress file names the string that killed it
                        let b = std::fs::read(&pf).unwrap_or_default();
                        let mut idx = [0u8; 8];
                        idx.copy_from_slice(&b[..8]);
                        let i = u64::from_le_bytes(idx);
                        a.7 += 1;
                        if a.5.len() < 200 {
                            a.5.push(json!({"kind": "decode-abort", "bytes": nth_string(i, max_full), "reference": [], "detail": format!("the process decoding this string died ({}): allocation request above {} bytes or abort", out.status, CEILING)}));
                        }
                        // indices before i in this range are lost with the child's counters; redo
                        // them is unnecessary for the verdict, continue after the killer
                        start = i + 1;
                    }
                }
            });
        }
    });
    let _ = std::fs::remove_dir_all(&scratch);
    let a = agg.into_inner().unwrap();
    for v in &a.5 {
        let kind = v["kind"].as_str().unwrap_or("?");
        if kind == "machinery" {
            rep.machinery.push(v["detail"].as_str().unwrap_or("").to_owned());
            continue;
        }
        let bytes: Vec<u8> = v["bytes"].as_array().map(|x| x.iter().map(|b| b.as_u64().unwrap_or(0) as u8).collect()).unwrap_or_default();
        rep.add_finding(Finding {
            prop: "C14".into(),
            kind: kind.to_owned(),
            detail: format!("decode(reference {:?}, {:02x?}): {}", v["reference"], bytes, v["detail"].as_str().unwrap_or("")),
            class: format!("bytes-len-{}", if bytes.len() > 5 { "long-structured".to_owned() } else { bytes.len().to_string() }),
            replay: json!({"engine": "codec-decode", "bytes": bytes, "reference": v["reference"]}),
        });
    }
    rep.evaluations += total * 3;
    rep.nontrivial.extend(a.6.iter().copied());
    rep.fingerprints.extend(a.6.iter().copied());
    rep.samples.push(json!({"decode": {"bytes": [0x80u8], "reference": []}}));
    rep.parts.push(json!({"part": "decode totality: every byte string up to the full length, plus length 4-5 over {00,01,7F,80,FF}, plus a structured family of longer strings (k repetitions and pairs of run descriptors around the size limits, with dangling tails), each against 3 references, in child processes under a counting allocator",
        "full_alphabet_max_len": max_full, "strings": total, "calls": total * 3, "returned_ok": a.0, "returned_err": a.1, "panicked": a.2, "over_alloc_bound": a.3, "children_died": a.7, "peak_allocation_max_bytes": a.4, "alloc_bound_bytes": ALLOC_BOUND, "distinct_outcome_classes": a.6.len()}));
}

pub fn c14() -> i32 {
    let mut rep = Report::new("C14", "model_checking");
    rep.rule = "word sweeps through the crate's real encode/decode: (reference, input sequence) pairs over a small byte alphabet and small lengths plus a run-length stress family, compared with the reference model (the list itself); every byte string up to a length as decoder input, judged for panic/abort/peak allocation; distinct = distinct encodings / distinct decode outcome classes (ok with shape, error message, panic)".to_owned();
    rep.assumptions = vec![
        "random/mutational inputs beyond the enumerated families are not attempted (different technique family)".into(),
        format!("allocation bound: 4 x the largest legitimate packet expansion = {ALLOC_BOUND} bytes, measured as peak live bytes during the call"),
    ];
    roundtrip_sweep(&mut rep);
    let max_full = if rep.thorough() { 3 } else { 2 };
    totality_sweep(&mut rep, max_full);
    rep.states = rep.fingerprints.len() as u64;
    rep.transitions = rep.evaluations;
    rep.finish()
}
