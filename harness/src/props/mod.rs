pub mod codec;
pub mod core;
pub mod drop;
pub mod recovery;
pub mod synctest;

use crate::scenario::Scenario;
use crate::world::{ExecResult, Violation};

pub type JudgeFn = fn(&Scenario, &ExecResult, Option<&ExecResult>) -> Vec<Violation>;

/// The end-of-run judge that belongs to a property (replay uses it).
pub fn judge_for(prop: &str) -> JudgeFn {
    match prop {
        "C05" => recovery::judge,
        "C07" => drop::judge,
        _ => core::no_judge,
    }
}
