pub mod core;
pub mod synctest;
