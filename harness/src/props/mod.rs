pub mod bounded;
pub mod builder;
pub mod codec;
pub mod core;
pub mod cutoff;
pub mod delay;
pub mod desync;
pub mod drop;
pub mod hashorder;
pub mod lifecycle_check;
pub mod malformed;
pub mod recovery;
pub mod spectator;
pub mod synctest;
pub mod timesync;

use crate::scenario::Scenario;
use crate::world::{ExecResult, Violation};

pub type JudgeFn = fn(&Scenario, &ExecResult, Option<&ExecResult>) -> Vec<Violation>;

/// The end-of-run judge that belongs to a property (replay uses it).
pub fn judge_for(prop: &str) -> JudgeFn {
    match prop {
        "C05" => recovery::judge,
        "C06" => spectator::judge,
        "C07" => drop::judge,
        "C08" => malformed::judge,
        "C09" => desync::judge,
        "C10" => cutoff::judge,
        "C11" => delay::judge,
        "C12" => lifecycle_check::judge,
        "C15" => timesync::judge,
        "C16" => builder::misuse_judge,
        "C18" => bounded::judge,
        _ => core::no_judge,
    }
}

/// Total number of bytes a run-length stream announces (shared by C08 and C14).
pub fn malformed_announced(data: &[u8]) -> u64 {
    malformed::announced_len(data)
}
