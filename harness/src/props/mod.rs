pub mod codec;
pub mod core;
pub mod synctest;
