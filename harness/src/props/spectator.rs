//! C06: a spectator replays exactly the host's confirmed input sequence.
use crate::explore::{explore, ExploreCfg};
use crate::net::{Fate, Outage};
use crate::props::core::{base_scn, packet_faults};
use crate::props::drop::check_spectator_equals_host;
use crate::report::Report;
use crate::scenario::*;
use crate::types::{Pred, Program};
use crate::wire::*;
use crate::world::{run_scn, ExecResult, RunOpt, Violation, R_OK, R_TOO_FAR_BEHIND};
use serde_json::json;
use std::collections::HashMap;
use std::sync::Mutex;
use std::time::Duration;

fn v(kind: &str, node: usize, round: i32, detail: String) -> Violation {
    Violation { prop: "C06", kind: kind.to_owned(), detail, round, node }
}

static NOSPEC: Mutex<Option<HashMap<String, Vec<u64>>>> = Mutex::new(None);

/// Fingerprint of what one player session simulated: results, request counts, frames, inputs.
fn peer_fp(res: &ExecResult, ni: usize) -> u64 {
    let n = &res.nodes[ni];
    let mut h = 0xcbf2_9ce4_8422_2325u64;
    for c in &n.calls {
        crate::types::fnv(&mut h, &[c.res, c.n_adv, c.n_save, c.n_load]);
        crate::types::fnv(&mut h, &c.cur.to_le_bytes());
    }
    for f in &n.sims {
        crate::types::fnv(&mut h, &f.vals);
        crate::types::fnv(&mut h, &f.stats);
        crate::types::fnv(&mut h, &f.count.to_le_bytes());
    }
    h
}

fn nospec_fps(scn: &Scenario) -> Vec<u64> {
    let mut c = scn.clone();
    c.name = String::new();
    c.specs.clear();
    c.outages.retain(|o| o.from < 20 && o.to < 20);
    c.scripted.retain(|o| o.from < 20 && o.to < 20);
    let key = serde_json::to_string(&c).unwrap();
    if let Some(m) = NOSPEC.lock().unwrap().as_ref() {
        if let Some(r) = m.get(&key) {
            return r.clone();
        }
    }
    let res = run_scn(&c, &Vec::new(), &RunOpt::default());
    let fps: Vec<u64> = (0..c.peers.len()).map(|i| peer_fp(&res, i)).collect();
    NOSPEC.lock().unwrap().get_or_insert_with(HashMap::new).insert(key, fps.clone());
    fps
}

pub fn judge(scn: &Scenario, res: &ExecResult, _base: Option<&ExecResult>) -> Vec<Violation> {
    let mut out = Vec::new();
    check_spectator_equals_host(scn, res, "C06", &mut out);
    for (si, sp) in scn.specs.iter().enumerate() {
        let sn = scn.peers.len() + si;
        let host = scn.peers.iter().position(|p| p.addr == sp.host).unwrap();
        let st = &res.nodes[sn];
        let ht = &res.nodes[host];
        // frames are handed out from 0 without gap by construction of the count; never beyond
        // what the host has confirmed at that moment
        for c in &st.calls {
            if c.n_adv == 0 {
                continue;
            }
            let hc = ht.calls.iter().rev().find(|h| h.round <= c.round && h.res == R_OK);
            if let Some(hc) = hc {
                if c.cur - 1 > hc.conf {
                    out.push(v("spectator-ahead-of-host-confirmation", sn, c.round, format!(
                        "round {}: the spectator was handed frame {} while the host's confirmed_frame() is {}", c.round, c.cur - 1, hc.conf)));
                    break;
                }
            }
        }
        // pacing
        for c in &st.calls {
            let n = c.n_adv as i32;
            let behind = c.behind;
            if n > 1 && (behind <= sp.max_behind as i32 || n > sp.catchup as i32) {
                out.push(v("spectator-pacing", sn, c.round, format!(
                    "round {}: {n} frames advanced in one call with {behind} frames buffered (max_frames_behind {}, catchup_speed {})", c.round, sp.max_behind, sp.catchup)));
                break;
            }
            if c.res == R_TOO_FAR_BEHIND && behind <= 60 {
                out.push(v("too-far-behind-unjustified", sn, c.round, format!("round {}: SpectatorTooFarBehind with only {behind} frames buffered (ring of 60)", c.round)));
                break;
            }
            if c.res == R_OK && c.n_adv > 0 && behind > 60 {
                out.push(v("overwritten-frame-delivered", sn, c.round, format!("round {}: a frame was handed out although {behind} frames were buffered (the ring holds 60: the needed frame has been overwritten)", c.round)));
                break;
            }
        }
    }
    // an explicit disconnect_player(spectator handle): accepted, and nothing further is reported
    // for that spectator's address afterwards
    for item in &scn.script {
        if let Action::Disconnect { handle } = item.action {
            if handle < scn.num_players {
                continue;
            }
            let nt = &res.nodes[item.node];
            let me = nt.addr;
            let Some(sp) = scn.specs.iter().filter(|sp| sp.host == me).nth(handle - scn.num_players) else { continue };
            if let Some(a) = nt.actions.iter().find(|a| a.round == item.round && a.action == item.action) {
                if a.res != R_OK {
                    out.push(v("spectator-disconnect-rejected", item.node, item.round, format!("disconnect_player({handle}) for a spectator returned {}", a.detail)));
                }
            }
            if let Some(e) = nt.events.iter().find(|e| e.0 > item.round && e.2.addr() == Some(sp.addr)) {
                out.push(v("event-after-spectator-disconnect", item.node, e.0, format!("{:?} reported in round {} for the spectator that was disconnected in round {}", e.2, e.0, item.round)));
            }
        }
    }
    // attaching spectators never changes what the players simulate (deterministic executions)
    if !scn.specs.is_empty() && res.points.is_empty() && res.cut.is_none() {
        let base = nospec_fps(scn);
        for pi in 0..scn.peers.len() {
            if res.nodes[pi].crashed.is_none() && peer_fp(res, pi) != base[pi] {
                out.push(v("spectator-changes-players", pi, 0, format!("player session {pi} simulates differently with the spectator(s) attached than without (same scenario otherwise)")));
            }
        }
    }
    out
}

fn spec_scn(class: &str, tp: &str, w: usize, d: usize, sparse: bool, catchup: usize, max_behind: usize, two: bool) -> Scenario {
    let mut s = base_scn(class, tp, w, d, sparse, Pred::RepeatLast, Program::Changing, 1);
    let mut sp = SpecSpec::new(20, s.peers[0].addr);
    sp.catchup = catchup;
    sp.max_behind = max_behind;
    s.specs.push(sp);
    if two {
        let mut sp = SpecSpec::new(21, s.peers[1].addr);
        sp.catchup = catchup;
        sp.max_behind = max_behind;
        s.specs.push(sp);
    }
    s.name = format!("{} catchup={catchup} max_behind={max_behind} two={two}", s.name);
    s.checks = crate::props::drop::CK_DROP;
    s
}

pub fn c06() -> i32 {
    let mut rep = Report::new("C06", "fault_enumeration");
    let t = rep.thorough();
    rep.rule = "grids over host topology x catch-up settings x spectator schedules (pauses of every length 1..75 crossing the 60-frame ring, slow ticking) x host-side player deaths, plus k<=2 packet deviations on host<->spectator and host<->peer links; oracles: frame-by-frame equality with the host's final timeline, never ahead of the host's confirmation, pacing rule, SpectatorTooFarBehind exactly when the ring was overrun, differential run without spectators; non-trivial = trace differs from the scenario's deviation-free run; distinct = trace fingerprints".to_owned();
    rep.assumptions = vec!["frames_behind_host() is read after an explicit poll right before the call, which is the value the pacing rule uses".into()];
    let props = ["C06", "PANIC"];
    // ---- pauses of every length
    {
        let mut scns = Vec::new();
        let topos: &[&str] = if t { &["1+1", "2+1", "1+1+1", "2+2"] } else { &["1+1", "2+1", "2+2"] };
        for tp in topos {
            for (catchup, max_behind) in [(1usize, 10usize), (2, 3), (5, 1), (70, 59), (5, 10)] {
                if !t && *tp != "1+1" && catchup != 5 {
                    continue;
                }
                let lens: Vec<i32> = if t { (1..=75).collect() } else if *tp == "2+2" { (20..=62).collect() } else { vec![1, 2, 5, 11, 12, 30, 57, 58, 59, 60, 61, 62, 63, 75] };
                let starts: Vec<i32> = if t { vec![3, 8, 40] } else { vec![3] };
                for &len in &lens {
                    for &start in &starts {
                      for polls in [false, true] {
                        let mut s = spec_scn("c06-pause", tp, if *tp == "2+1" { 2 } else { 8 }, 0, *tp == "2+1", catchup, max_behind, t && *tp == "1+1");
                        if *tp == "2+2" {
                            // a spectator endpoint with a wide window keeps long bursts decodable
                            s.specs[0].window = 30;
                        }
                        s.specs[0].pauses = vec![(start, len)];
                        s.specs[0].pause_polls = polls;
                        s.name = format!("{} pause start={start} len={len} polls-while-paused={polls}", s.name);
                        s.horizon = start + len + 2;
                        s.probe = 90;
                        scns.push(s);
                      }
                    }
                }
            }
        }
        let scns = if t { crate::props::drop::vary(scns) } else { scns };
        let n = scns.len();
        let cfg = ExploreCfg { k: Some(0), wall: Duration::from_secs(if t { 900 } else { 40 }), variants: crate::explore::NET_MENU, variant_every: if t { 1 } else { 3 }, ..Default::default() };
        let out = explore(&scns, &cfg, &judge);
        rep.absorb("pauses of the spectator of every length (crossing the 60-frame ring) x catch-up settings", out, &props, json!({"k": 0, "scenarios": n}));
    }
    // ---- slow spectators, lockstep hosts, delays
    {
        let mut scns = Vec::new();
        for every in [1, 2, 3] {
            for (w, d) in [(0usize, 0usize), (1, 0), (2, 2), (8, 1)] {
                for (catchup, max_behind) in [(1usize, 10usize), (3, 2), (5, 1)] {
                    let mut s = spec_scn("c06-slow", "1+1", w, d, w == 2, catchup, max_behind, false);
                    s.specs[0].tick_every = every;
                    s.name = format!("{} spectator-every={every}", s.name);
                    s.horizon = 150;
                    s.probe = 40;
                    scns.push(s);
                }
            }
        }
        // long histories: the 60-slot ring wraps many times; lossy background; all-local hosts
        let long_rounds = if t { 2500 } else { 700 };
        for (tp, w, d) in [("1+1", 8usize, 0usize), ("2+1", 2, 2), ("2", 8, 1), ("1", 0, 0), ("1+1+1", 3, 0)] {
            for (catchup, max_behind) in [(1usize, 10usize), (4, 2)] {
                for bg in 0..2 {
                    let mut s = spec_scn("c06-long", tp, w, d, false, catchup, max_behind, false);
                    if bg == 1 {
                        s.background = Background { loss_every: 5, delay_every: 7, stall_every: 17 };
                        // host<->spectator losses too
                        let a = s.peers[0].addr;
                        let mut st = 30;
                        while st < long_rounds {
                            s.outages.push(Outage { from: a, to: 20, start: st, len: 4, classes: CLASS_ALL });
                            s.outages.push(Outage { from: 20, to: a, start: st + 50, len: 6, classes: CLASS_ALL });
                            st += 131;
                        }
                    }
                    s.name = format!("{} {long_rounds} rounds background={bg}", s.name);
                    s.horizon = long_rounds;
                    s.probe = 40;
                    scns.push(s);
                }
            }
        }
        let n = scns.len();
        let cfg = ExploreCfg { k: Some(0), wall: Duration::from_secs(60), ..Default::default() };
        let out = explore(&scns, &cfg, &judge);
        rep.absorb("spectators ticking every 1st/2nd/3rd round, lockstep and rollback hosts; long histories (the 60-slot ring wraps many times) incl. all-local hosts", out, &props, json!({"k": 0, "scenarios": n}));
    }
    // ---- k deviations
    {
        let mut scns = Vec::new();
        for (tp, w, catchup, max_behind) in [("1+1", 2usize, 1usize, 10usize), ("2+1", 8, 3, 2), ("1+1", 0, 5, 1), ("1+1+1", 3, 2, 3)] {
            if !t && tp == "1+1+1" {
                continue;
            }
            let mut s = spec_scn("c06-D", tp, w, 0, false, catchup, max_behind, false);
            s.horizon = 10;
            s.probe = 50;
            s.fault = packet_faults(2, if t { 6 } else { 4 }, CLASS_INPUT | CLASS_INPUT_ACK, vec![Fate::Drop, Fate::Dup, Fate::Delay(3)], 0);
            scns.push(s);
        }
        let k = 2;
        let n = scns.len();
        let cfg = ExploreCfg { k: Some(k), wall: Duration::from_secs(if t { 1500 } else { 40 }), ..Default::default() };
        let out = explore(&scns, &cfg, &judge);
        rep.absorb("at most k packet deviations (drop, duplicate, delay+3) on Input/InputAck packets of all links", out, &props, json!({"k": k, "configs": n}));
    }
    // ---- outages on the host<->spectator link and host-side deaths
    {
        let mut scns = Vec::new();
        for (catchup, max_behind, tp) in [(1usize, 10usize, "1+1"), (5, 2, "1+1"), (3, 4, "2+2"), (70, 2, "1+1+1")] {
            for len in 1..=(if t { 70 } else if tp == "1+1" { 30 } else { 59 }) {
                for dir in 0..3 {
                    if !t && tp != "1+1" && dir == 1 {
                        continue;
                    }
                    let mut s = spec_scn("c06-outage", tp, if tp == "1+1" { 2 } else { 8 }, 0, false, catchup, max_behind, false);
                    let a = s.peers[0].addr;
                    if dir != 1 {
                        s.outages.push(Outage { from: a, to: 20, start: 4, len, classes: CLASS_ALL });
                    }
                    if dir != 0 {
                        s.outages.push(Outage { from: 20, to: a, start: 4, len, classes: CLASS_ALL });
                    }
                    s.name = format!("{} outage len={len} dir={dir}", s.name);
                    s.horizon = 4 + len + 2;
                    s.probe = 80;
                    scns.push(s);
                }
            }
        }
        let mut deaths = crate::props::drop::death_scenarios("c06-death", &["1+1", "1+2"], &[0, 2, 8], &[0, 2], &[false], 1..(if t { 20 } else { 8 }), 1, &[(100, 300)], &[true], crate::props::drop::CK_DROP);
        for s in deaths.iter_mut() {
            s.specs[0].catchup = 3;
            s.specs[0].max_behind = 2;
        }
        scns.extend(deaths);
        // three and four peers: one drops (equal receipt at the survivors), the spectators of the
        // first survivor must be handed exactly what that survivor finally used
        let mut deaths3 = crate::props::drop::death_scenarios("c06-death-3peers", &["1+1+1", "1+1+1+1", "2+1+1"], &[2, 8], &[0, 2], &[false, true], if t { 1..20 } else { 3..9 }, 0, &[(100, 300)], &[true], CK_C02 | CK_C04);
        for (i, s) in deaths3.iter_mut().enumerate() {
            s.specs[0].catchup = 1 + i % 3;
            s.specs[0].max_behind = 2 + i % 4;
        }
        if !t {
            deaths3 = deaths3.into_iter().step_by(2).collect();
        }
        scns.extend(deaths3);
        // lockstep sessions of three peers (input delay >= 1), one dies and its last packets reach
        // the survivors in every split: the host may hold more or less of the dead peer's input
        // than the other survivor reports; whatever the host finally uses for a frame is what its
        // spectator must have been handed. (Rollback windows are left out: unequal receipt there
        // runs into the known finding filed under C10.)
        let deaths_ls = crate::props::drop::death_scenarios("c06-death-3peers-lockstep-unequal", &["1+1+1"], &[0], &[1, 2, 3], &[false], if t { 3..14 } else { 5..9 }, 2, &[(100, 300)], &[true], CK_C02 | CK_C04);
        scns.extend(deaths_ls);
        // the same in another order of events: the other survivor stops hearing from the dying
        // peer a few rounds earlier and drops it explicitly right after its death, so that its
        // report of an earlier cut-off reaches the host while the host still counts the peer as
        // connected and holds delayed input of it that it has not consumed yet
        for d in [2usize, 3, 5] {
            for r in if t { 6..16 } else { 8..12 } {
                for cut_before in [2, 3] {
                    let mut s = base_scn("c06-lockstep-gossip-earlier-cutoff", "1+1+1", 0, d, false, Pred::RepeatLast, Program::Changing, 1);
                    s.specs.push(SpecSpec::new(20, s.peers[0].addr));
                    let (q, p) = (s.peers[1].addr, s.peers[2].addr);
                    let hp = s.peers[2].locals[0];
                    s.outages.push(Outage { from: p, to: q, start: r - cut_before, len: 40, classes: CLASS_ALL });
                    s.script.push(ScriptItem { round: r, node: 2, action: Action::Die });
                    s.script.push(ScriptItem { round: r + 1, node: 1, action: Action::Disconnect { handle: hp } });
                    s.name = format!("{} death@{r} link to the other survivor cut {cut_before} rounds earlier", s.name);
                    s.horizon = r + 3;
                    s.probe = 160;
                    s.checks = CK_C02 | CK_C04;
                    scns.push(s);
                }
            }
        }
        // a player drops while the host's confirmed frame is still below the last frame the host
        // holds from it: the host ticks at half rate (the dying peer runs ahead), or a third peer
        // lags behind
        for (tp, slow) in [("1+1", 0usize), ("1+2", 0), ("1+1+1", 2), ("1+1+1", 0)] {
            let mut ds = crate::props::drop::death_scenarios("c06-death-ahead", &[tp], &[8, 3], &[0, 1], &[false], if t { 8..28 } else { 10..18 }, 0, &[(50, 100)], &[true], CK_C02 | CK_C04);
            for (i, s) in ds.iter_mut().enumerate() {
                s.peers[slow].tick_every = 2;
                s.specs[0].catchup = 1 + i % 2;
                s.name = format!("{} peer {slow} ticks every 2nd round", s.name);
                s.probe += 40;
                // every other scenario: the host drops the player itself instead of waiting for
                // the timeout (the peer is alive and ahead)
                // (two-peer sessions only: with three peers an explicit drop of a live peer makes
                // the survivors disagree about the cut-off, C10's known finding)
                if (i / 2) % 2 == 1 && s.peers.len() == 2 {
                    let r = s.script[0].round;
                    let h = s.peers[1].locals[0];
                    s.script.clear();
                    s.script.push(ScriptItem { round: r, node: 0, action: Action::Disconnect { handle: h } });
                    s.name = format!("{} explicit disconnect_player({h})@{r}", s.name);
                }
            }
            if !t {
                ds = ds.into_iter().step_by(2).collect();
            }
            scns.extend(ds);
        }
        // the host disconnects one of two spectators explicitly (disconnect_player with the
        // spectator's handle): the players and the other spectator must not notice, and what the
        // disconnected spectator was handed until then equals the host's sequence
        for tp in ["1+1", "2+1"] {
            for w in [0usize, 2, 8] {
                for r in 0..(if t { 24 } else { 12 }) {
                    if !t && r % 2 == 1 && w != 2 {
                        continue;
                    }
                    let mut s = spec_scn("c06-spectator-disconnected", tp, w, 0, false, 2, 3, true);
                    let h = s.num_players;
                    s.script.push(ScriptItem { round: r, node: 0, action: Action::Disconnect { handle: h } });
                    s.name = format!("{} disconnect_player({h})@{r}", s.name);
                    s.horizon = r + 4;
                    s.probe = 160;
                    scns.push(s);
                }
            }
        }
        let n = scns.len();
        let cfg = ExploreCfg { k: Some(0), wall: Duration::from_secs(if t { 900 } else { 40 }), variants: crate::explore::NET_MENU, variant_every: if t { 1 } else { 3 }, ..Default::default() };
        let out = explore(&scns, &cfg, &judge);
        rep.absorb("outages on the host<->spectator link of every length; death of a player peer at every round (Disconnected statuses must reach the spectator exactly as the host has them)", out, &props, json!({"k": 0, "scenarios": n}));
    }
    // ---- the host drops a live peer (whose packets are still in flight) while its spectator is
    // suspended or lagging and replays those frames later
    {
        let mut scns = Vec::new();
        for w in [2usize, 8] {
            for lat in [1, 3] {
                for r in (if t { 4..16 } else { 6..12 }) {
                    for (plen, polls) in [(10, false), (10, true), (0, false)] {
                        if !t && r % 2 == 1 && plen == 0 {
                            continue;
                        }
                        let mut s = spec_scn("c06-live-peer-dropped", "1+1", w, 0, false, 2, 3, false);
                        s.latency = lat;
                        let h = s.peers[1].locals[0];
                        s.script.push(ScriptItem { round: r, node: 0, action: Action::Disconnect { handle: h } });
                        if plen > 0 {
                            s.specs[0].pauses = vec![(r - 2, plen)];
                            s.specs[0].pause_polls = polls;
                        } else {
                            s.specs[0].tick_every = 3;
                        }
                        s.name = format!("{} L={lat} disconnect_player({h})@{r} spectator pause={plen} polls={polls}", s.name);
                        s.horizon = r + 14;
                        s.probe = 80;
                        scns.push(s);
                    }
                }
            }
        }
        let n = scns.len();
        let cfg = ExploreCfg { k: Some(0), wall: Duration::from_secs(if t { 600 } else { 30 }), ..Default::default() };
        let out = explore(&scns, &cfg, &judge);
        rep.absorb("the host drops a live peer whose packets are still in flight; the spectator is suspended, polling without advancing, or slow, and replays those frames later", out, &props, json!({"k": 0, "scenarios": n}));
    }
    // ---- stale and fresh host packets in any order around a host-side drop
    {
        let scns = crate::props::drop::spectator_reorder_scenarios("c06-reorder-around-drop");
        let k = if t { 3 } else { 2 };
        let n = scns.len();
        let cfg = ExploreCfg { k: Some(k), wall: Duration::from_secs(if t { 900 } else { 30 }), ..Default::default() };
        let out = explore(&scns, &cfg, &judge);
        rep.absorb("host->spectator Input packets delayed/dropped (reordered) around the round in which the host registers a drop", out, &props, json!({"k": k, "configs": n}));
    }
    rep.finish()
}
