//! C12: connection lifecycle events are well formed and correctly timed.
use crate::explore::{explore, ExploreCfg};
use crate::net::{Fate, Outage, ScriptedFate};
use crate::props::core::{base_scn, packet_faults};
use crate::report::Report;
use crate::scenario::*;
use crate::types::{Addr, Pred, Program};
use crate::wire::*;
use crate::world::{run_scn, Ev, ExecResult, RunOpt, Violation, R_NOT_SYNC, R_NO_TICK, R_STALLED};
use serde_json::json;
use std::time::Duration;

pub const CK_SIZES: u32 = 1 << 21;

fn v(kind: &str, node: usize, round: i32, detail: String) -> Violation {
    Violation { prop: "C12", kind: kind.to_owned(), detail, round, node }
}

fn remote_addrs(scn: &Scenario, node: usize) -> Vec<(Addr, u64, u64)> {
    if node < scn.peers.len() {
        let p = &scn.peers[node];
        let mut r: Vec<(Addr, u64, u64)> = scn.peers.iter().filter(|q| q.addr != p.addr).map(|q| (q.addr, p.notify_ms, p.timeout_ms)).collect();
        r.extend(scn.specs.iter().filter(|s| s.host == p.addr).map(|s| (s.addr, p.notify_ms, p.timeout_ms)));
        r
    } else {
        let s = &scn.specs[node - scn.peers.len()];
        vec![(s.host, s.notify_ms, s.timeout_ms)]
    }
}

/// The per-address event grammar (a safety property: checked on complete and cut traces).
/// `truncated`: the application only looked at its events at the end of the run, so the oldest
/// ones may have been discarded by the 100-entry bound and the stream starts in an unknown state.
fn grammar(res: &ExecResult, node: usize, addr: Addr, truncated: bool, out: &mut Vec<Violation>) {
    #[derive(PartialEq, Debug, Clone, Copy)]
    enum St { Unknown, Syncing(u32), Up, Interrupted, Gone }
    let mut st = if truncated { St::Unknown } else { St::Syncing(0) };
    for (r, _, e) in res.nodes[node].events.iter().filter(|e| e.2.addr() == Some(addr)) {
        let next = match (st, e) {
            (St::Unknown, Ev::Synchronizing { total, count, .. }) if *total == 5 && *count < 5 => Some(St::Syncing(*count)),
            (St::Unknown, Ev::Synchronized { .. }) => Some(St::Up),
            (St::Unknown, Ev::Interrupted { .. }) => Some(St::Interrupted),
            (St::Unknown, Ev::Resumed { .. }) => Some(St::Up),
            (St::Unknown, Ev::Disconnected { .. }) => Some(St::Gone),
            (St::Unknown, Ev::Desync { .. }) => Some(St::Unknown),
            (St::Syncing(c), Ev::Synchronizing { total, count, .. }) if *total == 5 && *count == c + 1 && *count < 5 => Some(St::Syncing(c + 1)),
            // (the handshake events were drained while synchronising; what an undrained
            // application sees afterwards is the newest part of the stream only)
            (St::Syncing(4), Ev::Synchronized { .. }) => Some(if truncated { St::Unknown } else { St::Up }),
            (St::Up, Ev::Interrupted { .. }) => Some(St::Interrupted),
            (St::Interrupted, Ev::Resumed { .. }) => Some(St::Up),
            (St::Up | St::Interrupted, Ev::Disconnected { .. }) => Some(St::Gone),
            (s, Ev::Desync { .. }) if s != St::Gone => Some(s),
            _ => None,
        };
        match next {
            Some(n) => st = n,
            None => {
                out.push(v("event-grammar", node, *r, format!("event {e:?} for address {addr} is not allowed in lifecycle state {st:?} (round {r})")));
                return;
            }
        }
    }
}

pub fn judge(scn: &Scenario, res: &ExecResult, _base: Option<&ExecResult>) -> Vec<Violation> {
    let mut out = Vec::new();
    for ni in 0..res.nodes.len() {
        if res.nodes[ni].crashed.is_some() {
            continue;
        }
        let remotes = remote_addrs(scn, ni);
        for &(addr, notify, timeout) in &remotes {
            let drains_events = if ni < scn.peers.len() { scn.peers[ni].drain } else { scn.specs[ni - scn.peers.len()].drain };
            grammar(res, ni, addr, !drains_events, &mut out);
            if res.cut.is_some() {
                continue;
            }
            // timers against the model (from the moment the endpoint was Running)
            let nt = &res.nodes[ni];
            let explicit = nt.actions.iter().find(|a| match a.action {
                Action::Disconnect { handle } => a.res == 0 && handle < scn.num_players && scn.peers[scn.owner_of(handle)].addr == addr,
                _ => false,
            }).map(|a| a.round);
            let drains = if ni < scn.peers.len() { scn.peers[ni].drain } else { scn.specs[ni - scn.peers.len()].drain };
            if !scn.handshake_phase && drains {
                let exp = crate::lifecycle::expected(res, ni, addr, notify, timeout, explicit);
                let act = crate::lifecycle::actual(res, ni, addr);
                // a spectator that stops acknowledging is disconnected by the host through the
                // pending-output cap, not through the timers: not this model's business
                let cap_disconnect = act.len() == exp.len() + 1 && act.last().map(|x| x.1) == Some(crate::lifecycle::Life::Disconnected) && scn.specs.iter().any(|s| s.addr == addr);
                if exp != act && !cap_disconnect {
                    out.push(v("lifecycle-timing", ni, act.first().map(|x| x.0).unwrap_or(0), format!(
                        "events about {addr} (round, kind): {act:?}; the timer model (notify {notify} ms, timeout {timeout} ms) over the polls made and packets handed over expects {exp:?}")));
                }
            }
        }
        if res.cut.is_some() {
            continue;
        }
        // Running exactly when every remote completed 5 matched round trips
        if scn.handshake_phase {
            let nt = &res.nodes[ni];
            let me = nt.addr;
            let calls: Vec<&crate::world::CallRec> = nt.calls.iter().filter(|c| c.res != R_NO_TICK && c.res != R_STALLED).collect();
            for (i, c) in calls.iter().enumerate() {
                let t_next = calls.get(i + 1).map(|n| n.t_us).unwrap_or(u64::MAX);
                let done = remotes.iter().all(|(a, _, _)| res.matched_log.iter().any(|m| m.0 == me && m.1 == *a && m.2 >= 5 && m.3 < t_next));
                if c.running != done {
                    let counts: Vec<(Addr, usize)> = remotes.iter().map(|(a, _, _)| (*a, res.matched_log.iter().filter(|m| m.0 == me && m.1 == *a && m.3 < t_next).count())).collect();
                    out.push(v(if c.running { "running-before-full-handshake" } else { "not-running-after-full-handshake" }, ni, c.round, format!(
                        "after the call of round {} current_state() is {}, matched request/reply round trips per remote: {counts:?} (5 needed for each)", c.round, if c.running { "Running" } else { "Synchronizing" })));
                    break;
                }
                let tick = c.res != crate::world::R_POLL_ONLY;
                if tick && (c.res == R_NOT_SYNC) == c.running {
                    out.push(v("not-synchronized-error-mismatch", ni, c.round, format!("round {}: advance_frame result code {} while the session is {}", c.round, c.res, if c.running { "Running" } else { "Synchronizing" })));
                    break;
                }
            }
            // Synchronizing{count=k} / Synchronized are drained in the call that saw the k-th match
            for &(addr, _, _) in &remotes {
                for m in res.matched_log.iter().filter(|m| m.0 == me && m.1 == addr && m.2 <= 5) {
                    let call = calls.iter().enumerate().find(|(i, c)| c.t_us <= m.3 && calls.get(i + 1).map(|n| n.t_us > m.3).unwrap_or(true)).map(|x| x.1.round);
                    let Some(r) = call else { continue };
                    let want = if m.2 < 5 { Ev::Synchronizing { addr, total: 5, count: m.2 } } else { Ev::Synchronized { addr } };
                    let drained = nt.events.iter().any(|e| e.0 == r && e.2 == want);
                    let peer_drains = if ni < scn.peers.len() { scn.peers[ni].drain } else { true };
                    if !drained && peer_drains {
                        out.push(v("handshake-event-missing", ni, r, format!("matched round trip #{} with {addr} happened in the poll of round {r} but {want:?} was not drained there", m.2)));
                        break;
                    }
                }
            }
        }
        // event queue bound
        if scn.checks & CK_SIZES != 0 {
            let nt = &res.nodes[ni];
            if let Some(&q) = nt.max_sizes.first() {
                if q > 100 {
                    out.push(v("event-queue-over-100", ni, 0, format!("the event queue held {q} entries after an API call (documented bound 100)")));
                }
            }
        }
    }
    out
}

fn handshake_scn(class: &str, tp: &str, spec: bool, round_ms: u64, horizon: i32) -> Scenario {
    let mut s = base_scn(class, tp, 2, 0, false, Pred::RepeatLast, Program::Changing, 1);
    if spec {
        s.specs.push(SpecSpec::new(20, s.peers[0].addr));
        s.name = format!("{} +spectator", s.name);
    }
    s.round_us = round_ms * 1000;
    s.handshake_phase = true;
    s.name = format!("{} round={round_ms}ms", s.name);
    s.horizon = horizon;
    s.probe = (1600 / round_ms as i32).max(20);
    s.checks = CK_C02;
    s
}

pub fn c12() -> i32 {
    let mut rep = Report::new("C12", "model_checking");
    let t = rep.thorough();
    rep.rule = "stateful exploration of the handshake (every fate deliver/drop/duplicate/hold of every SyncRequest/SyncReply to a round depth, visited set over world digests), k-bounded fault enumeration at three poll cadences, forged replies at every round, silences of every length repeated twice, poll-only sessions at every cadence pair, undrained event queues; oracles: per-address event grammar, matched round trips counted by the simulated network, the timer reference model; non-trivial = trace differs from the fault-free run; distinct = distinct trace fingerprints".to_owned();
    rep.assumptions = vec!["a matched round trip = a SyncReply handed to the requester whose nonce that requester issued to that address and that was not counted before (counted by the simulated network, independent of ggrs)".into()];
    let props = ["C12", "PANIC"];
    // ---- (a) mode S on the handshake
    {
        let depth: i32 = std::env::var("VERIF_C12_DEPTH").ok().and_then(|x| x.parse().ok()).unwrap_or(if t { 6 } else { 5 });
        let mut scns = Vec::new();
        for spec in [false, true] {
            let mut s = handshake_scn("c12-S", "1+1", spec, 100, depth);
            s.fault = packet_faults(0, depth, CLASS_HANDSHAKE, if t { vec![Fate::Drop, Fate::Dup, Fate::Delay(1)] } else { vec![Fate::Drop, Fate::Delay(1)] }, 0);
            if spec {
                // keep the branching tractable: faults on the host<->spectator link only
                let a = s.peers[0].addr;
                s.fault.links = vec![(a, 20), (20, a)];
            } else {
                let (a, b) = (s.peers[0].addr, s.peers[1].addr);
                s.fault.links = vec![(a, b), (b, a)];
            }
            scns.push(s);
        }
        let cfg = ExploreCfg { k: None, stateful: true, wall: Duration::from_secs(if t { 1500 } else { 40 }), ..Default::default() };
        let out = explore(&scns, &cfg, &judge);
        rep.absorb("a: stateful exploration of the handshake: every fate (deliver, drop, duplicate, hold one round) of every SyncRequest/SyncReply, 100 ms rounds so that the 200 ms retry fires inside the depth", out, &props,
            json!({"k": "unbounded", "depth_rounds": depth, "configs": scns.len()}));
    }
    // ---- (b) k faults at three cadences
    {
        let mut scns = Vec::new();
        for (tp, spec) in [("1+1", false), ("1+1", true), ("1+1+1", false), ("1+2", false), ("2+2", true)] {
            for ms in [16u64, 100, 250] {
                if !t && tp != "1+1" && ms != 100 {
                    continue;
                }
                let h = if ms == 16 { 14 } else { 10 };
                let mut s = handshake_scn("c12-D", tp, spec, ms, h);
                s.fault = packet_faults(0, h, CLASS_HANDSHAKE, vec![Fate::Drop, Fate::Dup, Fate::Delay(2)], 0);
                scns.push(s);
            }
        }
        let k = if t { 3 } else { 2 };
        let cfg = ExploreCfg { k: Some(k), wall: Duration::from_secs(if t { 1500 } else { 40 }), ..Default::default() };
        let out = explore(&scns, &cfg, &judge);
        rep.absorb("b: at most k faults on handshake packets at poll cadences 16/100/250 ms", out, &props, json!({"k": k, "configs": scns.len()}));
    }
    // ---- (f) forged replies: stray nonce, replay of an authentic reply, foreign magic
    {
        let mut scns = Vec::new();
        for spec in [false, true] {
            let base = handshake_scn("c12-forged", "1+1", spec, 16, 16);
            let sn = run_scn(&base, &Vec::new(), &RunOpt { sniff: true, ..Default::default() });
            let (a, b) = (base.peers[0].addr, base.peers[1].addr);
            // the first authentic reply b -> a
            let first = sn.sniff.iter().find(|p| p.1 == b && p.2 == a && matches!(p.3.body, WBody::SyncReply { .. })).map(|p| (p.0, p.3.clone()));
            let Some((r0, reply)) = first else { continue };
            for r in 0..14 {
                let mut forged: Vec<(&str, WMessage)> = vec![
                    ("stray-nonce", WMessage { magic: reply.magic, body: WBody::SyncReply { random_reply: 0xDEAD_BEEF } }),
                    ("foreign-magic-stray-nonce", WMessage { magic: reply.magic ^ 0x5555, body: WBody::SyncReply { random_reply: 0x1234_5678 } }),
                ];
                if r > r0 + 2 {
                    forged.push(("replayed-reply", reply.clone()));
                    forged.push(("replayed-reply-foreign-magic", WMessage { magic: reply.magic ^ 0x5555, body: reply.body.clone() }));
                }
                for (what, m) in forged {
                    for before in [true, false] {
                        let mut s = base.clone();
                        s.name = format!("{} forged {what} to {a} at round {r} before={before}", base.name);
                        s.inject.push(InjectSpec { round: r, to: a, from: b, msg: m.clone(), before });
                        scns.push(s);
                    }
                }
            }
        }
        let n = scns.len();
        let cfg = ExploreCfg { k: Some(0), wall: Duration::from_secs(60), ..Default::default() };
        let out = explore(&scns, &cfg, &judge);
        rep.absorb("f: one forged SyncReply (stray nonce, replay of an earlier authentic reply, foreign magic) injected at every round of the handshake, before and after the authentic packets", out, &props, json!({"k": 0, "scenarios": n}));
    }
    // ---- (c) silences of every length, twice
    {
        let mut scns = Vec::new();
        for (notify, timeout) in [(100u64, 300u64), (500, 2000), (300, 300), (400, 300), (280, 300)] {
            if !t && timeout == 2000 {
                continue;
            }
            let to_rounds = (timeout * 1000 / 16_667) as i32;
            for len in 1..=to_rounds + 3 {
                for gap in [3, 9] {
                    for (w, tp) in [(2usize, "1+1"), (0, "1+1"), (2, "1+2")] {
                        let mut s = base_scn("c12-silence", tp, w, 0, false, Pred::RepeatLast, Program::Changing, 1);
                        for p in s.peers.iter_mut() {
                            p.notify_ms = notify;
                            p.timeout_ms = timeout;
                        }
                        let (a, b) = (s.peers[0].addr, s.peers[1].addr);
                        s.outages.push(Outage { from: b, to: a, start: 3, len, classes: CLASS_ALL });
                        s.outages.push(Outage { from: b, to: a, start: 3 + len + gap, len, classes: CLASS_ALL });
                        s.name = format!("{} notify={notify} timeout={timeout} two silences len={len} gap={gap}", s.name);
                        s.horizon = 3 + 2 * len + gap + 2;
                        s.probe = 30;
                        s.checks = CK_C02;
                        scns.push(s);
                    }
                }
            }
        }
        // the same at other frame rates (the timers are in milliseconds, the polls per frame) and
        // over longer links
        for (fps, lat) in [(20usize, 0), (30, 2), (144, 1), (144, 6), (60, 4)] {
            let round_us = 1_000_000 / fps as u64;
            for (notify, timeout) in [(100u64, 300u64), (250, 300)] {
                let to_rounds = (timeout * 1000 / round_us) as i32;
                let step = if t { 1 } else { (to_rounds / 12).max(1) as usize };
                for len in (1..=to_rounds + 3).step_by(step) {
                    for w in [2usize, 0] {
                        let mut s = base_scn("c12-silence-fps", "1+1", w, 0, false, Pred::RepeatLast, Program::Changing, lat);
                        s.fps = fps;
                        s.round_us = round_us;
                        for p in s.peers.iter_mut() {
                            p.notify_ms = notify;
                            p.timeout_ms = timeout;
                        }
                        let (a, b) = (s.peers[0].addr, s.peers[1].addr);
                        let gap = 3 + 2 * lat;
                        s.outages.push(Outage { from: b, to: a, start: 3 + lat, len, classes: CLASS_ALL });
                        s.outages.push(Outage { from: b, to: a, start: 3 + lat + len + gap, len, classes: CLASS_ALL });
                        s.name = format!("{} fps={fps} notify={notify} timeout={timeout} two silences len={len} gap={gap}", s.name);
                        s.horizon = 3 + lat + 2 * len + gap + 2;
                        s.probe = (600_000 / round_us) as i32 + 10;
                        s.checks = CK_C02;
                        scns.push(s);
                    }
                }
            }
        }
        let n = scns.len();
        let cfg = ExploreCfg { k: Some(0), wall: Duration::from_secs(if t { 900 } else { 30 }), ..Default::default() };
        let out = explore(&scns, &cfg, &judge);
        rep.absorb("c: two silences of every length 1..timeout+3 rounds separated by a short gap (alternation of NetworkInterrupted / NetworkResumed, Disconnected on time)", out, &props, json!({"k": 0, "scenarios": n}));
    }
    // ---- (c2) the application itself stalls (no poll) across the window between the notify delay
    // and the timeout of a silence, so that one poll finds both thresholds exceeded
    {
        let mut scns = Vec::new();
        for (notify, timeout) in [(100u64, 300u64), (50, 150)] {
            let n_r = (notify * 1000 / 16_667) as i32;
            let t_r = (timeout * 1000 / 16_667) as i32;
            for stall_from in (n_r - 3)..=(n_r + 2) {
                for stall_len in [(t_r - n_r) - 2, t_r - n_r + 2, t_r + 4] {
                    for w in [2usize, 0] {
                        let mut s = base_scn("c12-app-stall", "1+1", w, 0, false, Pred::RepeatLast, Program::Changing, 1);
                        for p in s.peers.iter_mut() {
                            p.notify_ms = notify;
                            p.timeout_ms = timeout;
                        }
                        let (a, b) = (s.peers[0].addr, s.peers[1].addr);
                        // the remote goes silent at round 4 (for good), the application stalls
                        s.outages.push(Outage { from: b, to: a, start: 4, len: 400, classes: CLASS_ALL });
                        for r in 0..stall_len.max(1) {
                            s.scripted_stalls.push((0, 5 + stall_from + r));
                        }
                        s.name = format!("{} notify={notify} timeout={timeout} app stalls from silence+{stall_from} for {stall_len}", s.name);
                        s.horizon = 5 + stall_from + stall_len + 3;
                        s.probe = t_r + 20;
                        s.checks = CK_C02;
                        scns.push(s);
                    }
                }
            }
        }
        let n = scns.len();
        let cfg = ExploreCfg { k: Some(0), wall: Duration::from_secs(60), ..Default::default() };
        let out = explore(&scns, &cfg, &judge);
        rep.absorb("c2: the remote goes silent and the application does not poll across the window between notify delay and timeout", out, &props, json!({"k": 0, "scenarios": n}));
    }
    // ---- (g) every up/down pattern of a link, round by round
    {
        let mut scns = Vec::new();
        let depth = if t { 16 } else { 12 };
        for w in [2usize, 0] {
            for both in [false, true] {
                let mut s = base_scn("c12-link-patterns", "1+1", w, 0, false, Pred::RepeatLast, Program::Changing, 1);
                for p in s.peers.iter_mut() {
                    p.notify_ms = 50;
                    p.timeout_ms = 150;
                }
                let (a, b) = (s.peers[0].addr, s.peers[1].addr);
                s.fault = packet_faults(2, depth, 0, Vec::new(), 0);
                s.fault.link_rounds = if both { vec![vec![(b, a), (a, b)]] } else { vec![vec![(b, a)]] };
                s.name = format!("{} both-directions={both}", s.name);
                s.horizon = 2 + depth;
                s.probe = 30;
                s.checks = CK_C02;
                scns.push(s);
            }
        }
        let cfg = ExploreCfg { k: Some(depth as usize), wall: Duration::from_secs(if t { 900 } else { 40 }), ..Default::default() };
        let out = explore(&scns, &cfg, &judge);
        rep.absorb("g: every up/down pattern of the link (one direction, or both together), round by round, with notify 50 ms / timeout 150 ms: interruption, resume and disconnect against the timer model, grammar on every stream", out, &props, json!({"k": "all subsets of the window", "window_rounds": depth, "configs": scns.len()}));
    }
    // ---- (d) poll-only sessions
    {
        let mut scns = Vec::new();
        let cads: Vec<i32> = if t { vec![8, 16, 33, 50, 100] } else { vec![8, 33, 100] };
        let lats: Vec<i32> = if t { vec![0, 10, 50, 100] } else { vec![0, 50] };
        for &ca in &cads {
            for &cb in &cads {
                for &lat in &lats {
                    let mut s = base_scn("c12-poll-only", "1+1", 2, 0, false, Pred::RepeatLast, Program::Changing, lat);
                    s.round_us = 1000;
                    s.peers[0].poll_only = true;
                    s.peers[1].poll_only = true;
                    s.peers[0].tick_every = ca;
                    s.peers[1].tick_every = cb;
                    s.name = format!("{} cadences {ca}ms/{cb}ms latency {lat}ms", s.name);
                    s.max_sync_rounds = 20_000;
                    s.horizon = 0;
                    s.probe = 10_000;
                    s.checks = 0;
                    scns.push(s);
                }
            }
        }
        let n = scns.len();
        let cfg = ExploreCfg { k: Some(0), wall: Duration::from_secs(120), ..Default::default() };
        let out = explore(&scns, &cfg, &judge);
        rep.absorb("d: two connected sessions that only call poll_remote_clients for 10 s of virtual time, every cadence pair x latency, default timeouts: no event at all may appear", out, &props, json!({"k": 0, "scenarios": n}));
    }
    // ---- (e) the user never drains events
    {
        let mut scns = Vec::new();
        for (w, slow) in [(8usize, 3), (8, 1), (2, 3)] {
            let mut s = base_scn("c12-undrained", "1+1", w, 0, false, Pred::RepeatLast, Program::Changing, 1);
            for p in s.peers.iter_mut() {
                p.notify_ms = 50;
                p.timeout_ms = 5000;
                p.drain = false;
            }
            // peer 1 is slower, so peer 0 runs ahead and gets WaitRecommendations
            s.peers[1].tick_every = slow;
            let (a, b) = (s.peers[0].addr, s.peers[1].addr);
            let cycles = if t { 160 } else { 70 };
            for c in 0..cycles {
                s.outages.push(Outage { from: b, to: a, start: 5 + c * 12, len: 6, classes: CLASS_ALL });
                s.outages.push(Outage { from: a, to: b, start: 5 + c * 12, len: 6, classes: CLASS_ALL });
            }
            s.name = format!("{} undrained slow-peer-every={slow}", s.name);
            s.horizon = 5 + cycles * 12 + 5;
            s.probe = 130;
            s.checks = CK_C02 | CK_SIZES;
            // the same with an application that polls on its own before every tick: the queue is
            // also looked at right after those bare polls
            let mut x = s.clone();
            for r in 0..x.horizon + x.probe {
                x.script.push(ScriptItem { round: r, node: 0, action: Action::Poll });
            }
            x.name = format!("{} polls-before-every-tick", x.name);
            scns.push(x);
            scns.push(s);
        }
        // several events pushed by ONE advance_frame call onto a full queue: diverging games with
        // desync detection on (one DesyncDetected per remote and compared frame), three peers or
        // checksum reports arriving in a burst
        for (tp, iv, burst) in [("1+1+1", 1u32, 0), ("1+1", 1, 4), ("1+1", 1, 9), ("1+1+1", 2, 5), ("1+1", 3, 7)] {
            let mut s = base_scn("c12-undrained-desync", tp, 8, 0, false, Pred::RepeatLast, Program::Changing, 1);
            for p in s.peers.iter_mut() {
                p.desync = iv;
                p.drain = false;
            }
            s.diverge = Some((1, 3));
            let (a, b) = (s.peers[0].addr, s.peers[1].addr);
            let rounds = 130 * iv as i32 + 40;
            if burst > 0 {
                let mut c = 10;
                while c < rounds {
                    // the reports of `burst` consecutive rounds are held and handed over together
                    for i in 0..burst {
                        for (from, to) in [(b, a), (a, b)] {
                            s.scripted.push(ScriptedFate { from, to, round: c + i, classes: 1 << K_CHECKSUM, fate: Fate::Delay(burst - i) });
                        }
                    }
                    c += burst + 6;
                }
            }
            s.name = format!("{} undrained interval={iv} checksum-burst={burst} node 1 diverges from frame 3", s.name);
            s.horizon = rounds;
            s.probe = 30;
            s.checks = CK_SIZES;
            scns.push(s);
        }
        let cfg = ExploreCfg { k: Some(0), wall: Duration::from_secs(120), ..Default::default() };
        let out = explore(&scns, &cfg, &judge);
        rep.absorb("e: events never drained, short notify delay, repeated silences (two events per cycle) and one peer running ahead (WaitRecommendation): the queue must never exceed 100", out, &props, json!({"k": 0, "scenarios": scns.len()}));
    }
    rep.finish()
}
