//! C07: a peer drops out (death, silence, explicit disconnect): event timing and the survivor's
//! final timeline. Also provides the death scenarios reused by C03 and C06.
use crate::explore::{explore, ExploreCfg};
use crate::net::{Fate, Outage, ScriptedFate};
use crate::props::core::{base_scn, packet_faults};
use crate::report::Report;
use crate::scenario::*;
use crate::types::{Pred, Program};
use crate::wire::*;
use crate::world::{Ev, ExecResult, Violation, R_OK};
use serde_json::json;
use std::time::Duration;

pub const CK_DROP: u32 = CK_C02 | CK_C03 | CK_C04;

fn v(prop: &'static str, kind: &str, node: usize, round: i32, detail: String) -> Violation {
    Violation {
        prop,
        kind: kind.to_owned(),
        detail,
        round,
        node,
    }
}

/// Events of `node` about remote `addr` against the timer reference model.
fn check_timeout_events(scn: &Scenario, res: &ExecResult, node: usize, addr: u8, out: &mut Vec<Violation>) {
    let nt = &res.nodes[node];
    if nt.crashed.is_some() {
        return;
    }
    let p = &scn.peers[node];
    let explicit = nt
        .actions
        .iter()
        .find(|a| match a.action {
            Action::Disconnect { handle } => a.res == R_OK && scn.peers[scn.owner_of(handle)].addr == addr,
            _ => false,
        })
        .map(|a| a.round);
    let exp = crate::lifecycle::expected(res, node, addr, p.notify_ms, p.timeout_ms, explicit);
    let act = crate::lifecycle::actual(res, node, addr);
    if exp != act {
        let kind = if act.len() > exp.len() || act.iter().zip(exp.iter()).any(|(a, e)| a.1 == e.1 && a.0 < e.0) { "lifecycle-event-early-or-extra" } else { "lifecycle-event-late-or-missing" };
        out.push(v("C07", kind, node, act.first().map(|x| x.0).unwrap_or(0), format!(
            "events about {addr} (round, kind): {act:?}; the timer model (notify {} ms, timeout {} ms, over the polls made and packets handed over) expects {exp:?}", p.notify_ms, p.timeout_ms)));
    }
    for e in nt.events.iter().filter(|e| e.0 >= 0 && e.2.addr() == Some(addr)) {
        if let Ev::Interrupted { ms, .. } = e.2 {
            let want = p.timeout_ms.saturating_sub(p.notify_ms) as u128;
            if ms != want {
                out.push(v("C07", "interrupted-timeout-field", node, e.0, format!("NetworkInterrupted.disconnect_timeout = {ms}, expected {want}")));
            }
        }
    }
}

/// The survivor's final timeline for the handles of the dropped address.
fn check_survivor_timeline(scn: &Scenario, res: &ExecResult, node: usize, dead_peer: usize, expected_last: Option<i32>, out: &mut Vec<Violation>) {
    let nt = &res.nodes[node];
    if nt.crashed.is_some() || nt.conn.is_empty() {
        return;
    }
    for &h in &scn.peers[dead_peer].locals {
        let (disc, last) = nt.conn[h];
        if !disc {
            out.push(v("C07", "not-marked-disconnected", node, 0, format!("player {h} of the dropped peer is not marked disconnected at the end of the run")));
            continue;
        }
        if let Some(el) = expected_last {
            // the session cannot have received more than the network handed over; packets whose
            // delta base it no longer holds are legitimately undecodable, so no equality here
            if last > el {
                out.push(v("C07", "cutoff-beyond-delivered", node, 0, format!(
                    "player {h}: the session's cut-off is frame {last} but the newest frame the network ever handed over from that peer is {el}")));
            }
        }
        // every real input the session ever used for that player must lie at or before the cut-off
        if let Some(snap) = (if !nt.conn_at_disc.is_empty() { Some(&nt.conn_at_disc) } else { None }) {
            if snap[h].0 && snap[h].1 != last {
                out.push(v("C07", "cutoff-moved-after-disconnect", node, 0, format!(
                    "player {h}: last received frame was {} when Disconnected was reported and is {last} at the end of the run", snap[h].1)));
            }
        }
        for (f, fr) in nt.sims.iter().enumerate() {
            let f = f as i32;
            if fr.vals.len() <= h {
                continue;
            }
            let (val, st) = (fr.vals[h], fr.stats[h]);
            if f <= last {
                let t = scn.truth(h, f);
                if val != t || st == 2 {
                    out.push(v("C07", "survivor-timeline-before-cutoff", node, 0, format!(
                        "final timeline frame {f} player {h}: ({val}, status {st}); the real input is {t} and the cut-off is frame {last}")));
                    break;
                }
            } else if val != 0 || st != 2 {
                out.push(v("C07", "survivor-timeline-after-cutoff", node, 0, format!(
                    "final timeline frame {f} player {h}: ({val}, status {st}); expected (0, Disconnected) after the cut-off frame {last}")));
                break;
            }
        }
    }
    // the survivor's own players and the other connected players keep their real inputs
    let upto = nt.calls.last().map(|c| c.conf.min(c.cur - 1)).unwrap_or(-1);
    for (f, fr) in nt.sims.iter().enumerate() {
        let f = f as i32;
        if f > upto {
            break;
        }
        for p in 0..scn.num_players {
            if scn.owner_of(p) == dead_peer {
                continue;
            }
            if nt.conn[p].0 {
                continue;
            }
            if fr.vals[p] != scn.truth(p, f) {
                out.push(v("C07", "survivor-timeline-other-player", node, 0, format!("final timeline frame {f} player {p}: {} instead of the real input {}", fr.vals[p], scn.truth(p, f))));
                return;
            }
        }
    }
}

/// A spectator of `host` must have been handed exactly the host's final timeline.
pub fn check_spectator_equals_host(scn: &Scenario, res: &ExecResult, prop: &'static str, out: &mut Vec<Violation>) {
    for (si, sp) in scn.specs.iter().enumerate() {
        let sn = scn.peers.len() + si;
        let host = scn.peers.iter().position(|p| p.addr == sp.host).unwrap();
        let (st, ht) = (&res.nodes[sn], &res.nodes[host]);
        if ht.crashed.is_some() {
            continue;
        }
        for (f, fr) in st.sims.iter().enumerate() {
            let Some(hf) = ht.sims.get(f) else {
                out.push(v(prop, "spectator-beyond-host", sn, 0, format!("the spectator was handed frame {f} which the host has not simulated")));
                break;
            };
            let h_disc: Vec<bool> = hf.stats.iter().map(|s| *s == 2).collect();
            let s_disc: Vec<bool> = fr.stats.iter().map(|s| *s == 2).collect();
            if fr.vals != hf.vals || h_disc != s_disc || fr.stats.iter().any(|s| *s == 1) {
                out.push(v(prop, "spectator-differs-from-host", sn, 0, format!(
                    "frame {f}: the spectator was handed values {:?} statuses {:?}; the host's final timeline has values {:?} statuses {:?}", fr.vals, fr.stats, hf.vals, hf.stats)));
                break;
            }
        }
    }
}

fn progress_after(res: &ExecResult, node: usize, from_round: i32, out: &mut Vec<Violation>) {
    let nt = &res.nodes[node];
    if nt.crashed.is_some() {
        return;
    }
    let last = nt.calls.last().map(|c| (c.round, c.cur)).unwrap_or((0, 0));
    let w0 = (last.0 - 30).max(from_round);
    let start = nt.calls.iter().find(|c| c.round >= w0).map(|c| c.cur).unwrap_or(last.1);
    let span = last.0 - w0;
    if span >= 12 && last.1 - start < span / 3 {
        out.push(v("C07", "survivor-does-not-advance", node, last.0, format!(
            "after the drop the survivor advanced only {} frames in the last {span} rounds (frame {} at round {})", last.1 - start, last.1, last.0)));
    }
}

pub fn judge(scn: &Scenario, res: &ExecResult, _base: Option<&ExecResult>) -> Vec<Violation> {
    let mut out = Vec::new();
    if res.cut.is_some() {
        return out;
    }
    for item in &scn.script {
        match &item.action {
            Action::Die => {
                let dead = item.node;
                let dead_addr = scn.peers[dead].addr;
                for (ni, _) in scn.peers.iter().enumerate() {
                    if ni == dead || res.nodes[ni].died_at.is_some() {
                        continue;
                    }
                    check_timeout_events(scn, res, ni, dead_addr, &mut out);
                    let el = res.delivered_frames.get(&(scn.peers[ni].addr, dead_addr)).copied().unwrap_or(-1);
                    let disconnected = res.nodes[ni].events.iter().any(|e| e.2 == Ev::Disconnected { addr: dead_addr });
                    if disconnected {
                        // with more than two peers the common cut-off is C10's business
                        let el = if scn.peers.len() == 2 { Some(el) } else { None };
                        check_survivor_timeline(scn, res, ni, dead, el, &mut out);
                        let r = res.nodes[ni].events.iter().find(|e| e.2 == Ev::Disconnected { addr: dead_addr }).map(|e| e.0).unwrap_or(0);
                        progress_after(res, ni, r, &mut out);
                    }
                }
            }
            Action::Disconnect { handle } => {
                let ni = item.node;
                let nt = &res.nodes[ni];
                let Some(a) = nt.actions.iter().find(|a| a.round == item.round && a.action == item.action) else { continue };
                // a repeated call for a peer this session has already disconnected (same handle or
                // its sibling) is refused and changes nothing: the checks of the first call, which
                // look at the end of the run, cover that
                let owner = scn.owner_of(*handle);
                let repeated = scn.script.iter().any(|o| o.node == item.node && o.round < item.round && matches!(o.action, Action::Disconnect { handle: h } if scn.owner_of(h) == owner));
                if repeated {
                    if a.res == R_OK {
                        out.push(v("C07", "repeated-disconnect-accepted", ni, item.round, format!("disconnect_player({handle}) for an already disconnected peer returned Ok")));
                    }
                    continue;
                }
                if a.res != R_OK {
                    out.push(v("C07", "disconnect-player-failed", ni, item.round, format!("disconnect_player({handle}) returned {}", a.detail)));
                    continue;
                }
                let dead = scn.owner_of(*handle);
                let dead_addr = scn.peers[dead].addr;
                let el = a.delivered_at_call.iter().find(|x| x.0 == dead_addr).map(|x| x.1).unwrap_or(-1);
                check_survivor_timeline(scn, res, ni, dead, if scn.peers.len() == 2 { Some(el) } else { None }, &mut out);
                progress_after(res, ni, item.round, &mut out);
                // immediately: the status right after the call already says disconnected
                for &h in &scn.peers[dead].locals {
                    if a.conn_after.get(h).map(|c| !c.0).unwrap_or(true) {
                        out.push(v("C07", "disconnect-not-immediate", ni, item.round, format!("player {h} not marked disconnected right after disconnect_player")));
                    } else if res.nodes[ni].conn.get(h).map(|c| c.1) != a.conn_after.get(h).map(|c| c.1) {
                        out.push(v("C07", "cutoff-moved-after-disconnect", ni, item.round, format!(
                            "player {h}: last received frame was {:?} right after disconnect_player and is {:?} at the end of the run", a.conn_after.get(h), res.nodes[ni].conn.get(h))));
                    }
                }
                check_timeout_events(scn, res, ni, dead_addr, &mut out);
            }
            _ => {}
        }
    }
    // silences that end: timing of NetworkInterrupted / Resumed is checked by the lifecycle
    // property (C12); here: no Disconnected when the silence was shorter than the timeout
    if !scn.has_disconnects() {
        for (ni, nt) in res.nodes.iter().enumerate() {
            if nt.is_spec {
                continue;
            }
            for pj in 0..scn.peers.len() {
                if pj != ni {
                    check_timeout_events(scn, res, ni, scn.peers[pj].addr, &mut out);
                }
            }
        }
    }
    check_spectator_equals_host(scn, res, "C07", &mut out);
    out
}

/// Death of peer 1 at every round of a window, every subset of its last m Input packets lost.
#[allow(clippy::too_many_arguments)]
pub fn death_scenarios(class: &str, topos: &[&str], windows: &[usize], delays: &[usize], sparse_opts: &[bool], moments: std::ops::Range<i32>, m: usize, timeouts: &[(u64, u64)], with_spec: &[bool], checks: u32) -> Vec<Scenario> {
    let mut v = Vec::new();
    for t in topos {
        for &w in windows {
            for &d in delays {
                for &sparse in sparse_opts {
                    if w == 0 && sparse {
                        continue;
                    }
                    for &(notify, timeout) in timeouts {
                        for &spec in with_spec {
                            for r in moments.clone() {
                                for mask in 0..(1u32 << m) {
                                    let mut s = base_scn(class, t, w, d, sparse, Pred::RepeatLast, Program::Changing, 1);
                                    for p in s.peers.iter_mut() {
                                        p.notify_ms = notify;
                                        p.timeout_ms = timeout;
                                    }
                                    if spec {
                                        let mut sp = SpecSpec::new(20, s.peers[0].addr);
                                        sp.notify_ms = notify;
                                        sp.timeout_ms = timeout;
                                        s.specs.push(sp);
                                    }
                                    let (a, b) = (s.peers[0].addr, s.peers[1].addr);
                                    s.name = format!("{} notify={notify} timeout={timeout} spec={spec} death@{r} lost-mask={mask:b}", s.name);
                                    s.script.push(ScriptItem { round: r, node: 1, action: Action::Die });
                                    for i in 0..m {
                                        if mask & (1 << i) != 0 {
                                            s.scripted.push(ScriptedFate { from: b, to: a, round: r - 1 - i as i32, classes: CLASS_INPUT, fate: Fate::Drop });
                                        }
                                    }
                                    let to_rounds = (timeout * 1000 / s.round_us) as i32 + 3;
                                    s.horizon = r + 2;
                                    s.probe = to_rounds + 45;
                                    s.checks = checks;
                                    v.push(s);
                                }
                            }
                        }
                    }
                }
            }
        }
    }
    v
}

/// Judge for link-pattern scenarios: the pattern itself decides whether a drop happens.
pub fn judge_patterns(scn: &Scenario, res: &ExecResult, b: Option<&ExecResult>) -> Vec<Violation> {
    let mut out = judge(scn, res, b);
    // node 0 may have disconnected node 1 (silence longer than the timeout): then its timeline
    // for node 1's players must be coherent and it must keep advancing
    let dead_addr = scn.peers[1].addr;
    if let Some(r) = res.nodes[0].events.iter().find(|e| e.2 == Ev::Disconnected { addr: dead_addr }).map(|e| e.0) {
        check_survivor_timeline(scn, res, 0, 1, None, &mut out);
        progress_after(res, 0, r, &mut out);
    }
    out
}

/// Multiplies a scenario set by (latency, input program, predictor) variations.
pub fn vary(scns: Vec<Scenario>) -> Vec<Scenario> {
    let mut out = Vec::with_capacity(scns.len() * 5);
    for s in scns {
        for (lat, prog, pred) in [(0, Program::Changing, Pred::RepeatLast), (2, Program::Runs, Pred::RepeatLast), (3, Program::Changing, Pred::Default), (2, Program::Sparse, Pred::Default)] {
            let mut x = s.clone();
            x.latency = lat;
            x.program = prog;
            x.pred = pred;
            x.name = format!("{} [L={lat} {prog:?} {pred:?}]", s.name);
            out.push(x);
        }
        out.push(s);
    }
    out
}

/// Host with a spectator, one remote player that drops (dies, or is disconnected explicitly):
/// host->spectator Input packets around the round in which the host registers the drop are
/// choice points (delay by 2 or 4 rounds, drop), so that stale and fresh packets reach the
/// spectator in every order.
pub fn spectator_reorder_scenarios(class: &str) -> Vec<Scenario> {
    let mut scns = Vec::new();
        for (tp, w) in [("1+1", 2usize), ("1+2", 8), ("1+1", 0)] {
            for explicit in [false, true] {
                let mut s = base_scn(class, tp, w, 0, false, Pred::RepeatLast, Program::Changing, 1);
                for p in s.peers.iter_mut() {
                    p.notify_ms = 50;
                    p.timeout_ms = 150;
                }
                let mut sp = SpecSpec::new(20, s.peers[0].addr);
                sp.notify_ms = 50;
                sp.timeout_ms = 1000;
                s.specs.push(sp);
                let a = s.peers[0].addr;
                let reg_round = if explicit {
                    let h = s.peers[1].locals[0];
                    s.script.push(ScriptItem { round: 8, node: 0, action: Action::Disconnect { handle: h } });
                    8
                } else {
                    s.script.push(ScriptItem { round: 4, node: 1, action: Action::Die });
                    // timeout 150 ms = 9 rounds after the last packet (handed over in round 4)
                    14
                };
                s.fault = packet_faults(reg_round - 3, 7, CLASS_INPUT, vec![Fate::Delay(2), Fate::Delay(4), Fate::Drop], 0);
                s.fault.links = vec![(a, 20)];
                s.name = format!("{} explicit={explicit}", s.name);
                s.horizon = reg_round + 6;
                s.probe = 50;
                s.checks = CK_DROP;
                scns.push(s);
            }
        }
    scns
}

pub fn c07() -> i32 {
    let mut rep = Report::new("C07", "fault_enumeration");
    let t = rep.thorough();
    rep.rule = "grid enumeration: moment of death x subset of the dying peer's last packets lost x topology x window x delay x saving mode x timeouts (x spectator), silences of every length around the notify delay and the timeout, explicit disconnect_player at every round, plus k<=1 further packet deviations; non-trivial = trace differs from the scenario without extra deviation (roots count); distinct = distinct trace fingerprints".to_owned();
    rep.assumptions = vec!["the reference times come from the simulated network: the virtual time of the poll that handed over the last packet of the dropped address".into(), "bounds as in coverage.parts".into()];
    let props = ["C07", "PANIC"];
    // ---- deaths
    {
        let scns = if t {
            let mut s = death_scenarios("drop-death", &["1+1", "2+1", "1+2"], &[0, 1, 2, 8], &[0, 2], &[false, true], 0..24, 3, &[(100, 300)], &[false, true], CK_DROP);
            s.extend(death_scenarios("drop-death-default-timeouts", &["1+1", "1+2"], &[0, 2, 8], &[0, 2], &[false, true], 2..26, 2, &[(500, 2000)], &[false], CK_DROP));
            s.extend(death_scenarios("drop-death-notify-ge-timeout", &["1+1"], &[0, 2], &[0], &[false], 2..14, 1, &[(300, 300), (400, 300)], &[false], CK_DROP));
            s
        } else {
            let mut s = death_scenarios("drop-death", &["1+1", "1+2"], &[0, 1, 2, 8], &[0, 2], &[false, true], 0..12, 2, &[(100, 300)], &[false], CK_DROP);
            s.extend(death_scenarios("drop-death", &["2+1"], &[2], &[0], &[false, true], 3..9, 2, &[(100, 300)], &[true], CK_DROP));
            s.extend(death_scenarios("drop-death-default-timeouts", &["1+1"], &[0, 2], &[0, 2], &[false], 4..8, 1, &[(500, 2000)], &[false], CK_DROP));
            s.extend(death_scenarios("drop-death-notify-ge-timeout", &["1+1"], &[2], &[0], &[false], 4..8, 1, &[(300, 300), (400, 300)], &[false], CK_DROP));
            s
        };
        // thorough: the same grid under other latencies, input programs and the other predictor
        let scns = if t { vary(scns) } else { scns };
        let n = scns.len();
        let cfg = ExploreCfg { k: Some(0), wall: Duration::from_secs(if t { 1200 } else { 40 }), variants: crate::explore::NET_MENU, variant_every: if t { 1 } else { 3 }, ..Default::default() };
        let out = explore(&scns, &cfg, &judge);
        rep.absorb("deaths: every moment x every subset of the last packets lost", out, &props, json!({"k": 0, "scenarios": n}));
    }
    // ---- deaths + one extra deviation on the surviving traffic
    {
        let mut scns = death_scenarios("drop-death-D", &["1+1", "1+2"], &[0, 2], &[0, 2], &[false, true], 5..7, 1, &[(100, 300)], &[false, true], CK_DROP);
        for s in scns.iter_mut() {
            s.fault = packet_faults(2, 8, CLASS_INPUT | CLASS_INPUT_ACK, vec![Fate::Drop, Fate::Delay(2), Fate::Delay(25)], 1);
            s.horizon = 12;
        }
        if !t {
            scns.truncate(16);
        }
        let cfg = ExploreCfg { k: Some(1), wall: Duration::from_secs(if t { 900 } else { 30 }), ..Default::default() };
        let n = scns.len();
        let out = explore(&scns, &cfg, &judge);
        rep.absorb("deaths with k<=1 further deviation (drop, delay+2, straggler delayed beyond the notify delay)", out, &props, json!({"k": 1, "scenarios": n}));
    }
    // ---- reordering of host->spectator packets around the moment the host registers the drop
    {
        let scns = spectator_reorder_scenarios("drop-spectator-reorder");
        let k = if t { 3 } else { 2 };
        let n = scns.len();
        let cfg = ExploreCfg { k: Some(k), wall: Duration::from_secs(if t { 900 } else { 30 }), ..Default::default() };
        let out = explore(&scns, &cfg, &judge);
        rep.absorb("host->spectator Input packets delayed/dropped (reordered) around the round in which the host registers the drop", out, &props, json!({"k": k, "configs": n}));
    }
    // ---- silences that end
    {
        let mut scns = Vec::new();
        let cfgs: Vec<(usize, usize, bool, u64, u64)> = if t {
            vec![(2, 0, false, 100, 300), (0, 0, false, 100, 300), (8, 2, true, 100, 300), (2, 0, false, 500, 2000), (0, 2, false, 500, 2000)]
        } else {
            vec![(2, 0, false, 100, 300), (0, 0, false, 100, 300), (2, 0, false, 500, 2000)]
        };
        for (w, d, sparse, notify, timeout) in cfgs {
            let to_rounds = (timeout * 1000 / 16_667) as i32;
            let lens: Vec<i32> = if t || timeout < 1000 { (1..=to_rounds + 4).collect() } else { vec![1, 29, 30, 31, 32, 60, 118, 119, 120, 121, 122, 123] };
            for len in lens {
                for dirs in 0..2 {
                    let mut s = base_scn("drop-silence", "1+1", w, d, sparse, Pred::RepeatLast, Program::Changing, 1);
                    for p in s.peers.iter_mut() {
                        p.notify_ms = notify;
                        p.timeout_ms = timeout;
                    }
                    let (a, b) = (s.peers[0].addr, s.peers[1].addr);
                    s.outages.push(Outage { from: b, to: a, start: 4, len, classes: CLASS_ALL });
                    if dirs == 1 {
                        s.outages.push(Outage { from: a, to: b, start: 4, len, classes: CLASS_ALL });
                    }
                    s.name = format!("{} notify={notify} timeout={timeout} silence len={len} both={dirs}", s.name);
                    s.horizon = 4 + len + 2;
                    s.probe = 40;
                    s.checks = CK_DROP;
                    scns.push(s);
                }
            }
        }
        let n = scns.len();
        let cfg = ExploreCfg { k: Some(0), wall: Duration::from_secs(if t { 900 } else { 30 }), variants: crate::explore::NET_MENU, variant_every: if t { 1 } else { 3 }, ..Default::default() };
        let out = explore(&scns, &cfg, &judge);
        rep.absorb("silences of every length from 1 round to timeout+4 rounds, one or both directions", out, &props, json!({"k": 0, "scenarios": n}));
    }
    // ---- every up/down pattern of the link from the remote, round by round
    {
        let mut scns = Vec::new();
        let depth = if t { 15 } else { 11 };
        for (w, d, sparse) in [(2usize, 0usize, false), (0, 0, false), (8, 2, true)] {
            let mut s = base_scn("drop-link-patterns", "1+1", w, d, sparse, Pred::RepeatLast, Program::Changing, 1);
            for p in s.peers.iter_mut() {
                p.notify_ms = 50;
                p.timeout_ms = 150;
            }
            let (a, b) = (s.peers[0].addr, s.peers[1].addr);
            s.fault = packet_faults(2, depth, 0, Vec::new(), 0);
            s.fault.link_rounds = vec![vec![(b, a)]];
            s.horizon = 2 + depth;
            s.probe = 40;
            s.checks = CK_DROP;
            scns.push(s);
        }
        let cfg = ExploreCfg { k: Some(depth as usize), wall: Duration::from_secs(if t { 900 } else { 40 }), ..Default::default() };
        let n = scns.len();
        let out = explore(&scns, &cfg, &judge_patterns);
        rep.absorb("every up/down pattern of the link from the remote peer over the window (notify 50 ms, timeout 150 ms): events against the timer model; when the pattern disconnects the peer, the survivor's timeline and progress", out, &props, json!({"k": "all subsets of the window", "window_rounds": depth, "configs": n}));
    }
    // ---- explicit disconnect_player at every round
    {
        let mut scns = Vec::new();
        let topos: &[&str] = if t { &["1+1", "2+1", "1+2"] } else { &["1+1", "1+2"] };
        for tp in topos {
            for w in [0usize, 1, 2, 8] {
                for d in [0usize, 2] {
                    for sparse in [false, true] {
                        if w == 0 && sparse || !t && sparse && w == 8 {
                            continue;
                        }
                        for lat in [1, 3] {
                            for r in 0..(if t { 20 } else { 10 }) {
                                for spec in [false, true] {
                                    if spec && (!t && (w != 2 || lat != 1)) {
                                        continue;
                                    }
                                    let mut s = base_scn("drop-explicit", tp, w, d, sparse, Pred::RepeatLast, Program::Changing, lat);
                                    if spec {
                                        s.specs.push(SpecSpec::new(20, s.peers[0].addr));
                                    }
                                    let h = s.peers[1].locals[0];
                                    s.script.push(ScriptItem { round: r, node: 0, action: Action::Disconnect { handle: h } });
                                    s.name = format!("{} spec={spec} disconnect_player({h})@{r}", s.name);
                                    s.horizon = r + 2;
                                    s.probe = 50;
                                    s.checks = CK_DROP;
                                    // the same with an application that also polls between its
                                    // ticks: the inputs taken in by that poll (and the
                                    // mispredictions they reveal) are pending when
                                    // disconnect_player is called
                                    let mut s2 = s.clone();
                                    s2.script.insert(0, ScriptItem { round: r, node: 0, action: Action::Poll });
                                    s2.name = format!("{} polls-between-ticks", s2.name);
                                    // an application that repeats the call a few ticks later (for
                                    // the same handle, or for the other player of that peer): it is
                                    // refused and nothing else may happen
                                    if r % 2 == 0 || t {
                                        let mut s3 = s.clone();
                                        let h2 = *s.peers[1].locals.last().unwrap();
                                        s3.script.push(ScriptItem { round: r + 3, node: 0, action: Action::Disconnect { handle: h2 } });
                                        s3.horizon = r + 5;
                                        s3.name = format!("{} and again disconnect_player({h2})@{}", s3.name, r + 3);
                                        scns.push(s3);
                                    }
                                    scns.push(s);
                                    scns.push(s2);
                                }
                            }
                        }
                    }
                }
            }
        }
        let n = scns.len();
        let cfg = ExploreCfg { k: Some(0), wall: Duration::from_secs(if t { 900 } else { 30 }), variants: crate::explore::NET_MENU, variant_every: if t { 1 } else { 3 }, ..Default::default() };
        let out = explore(&scns, &cfg, &judge);
        rep.absorb("explicit disconnect_player at every round (the other peer keeps sending: late input must not be used)", out, &props, json!({"k": 0, "scenarios": n}));
    }
    rep.finish()
}
