//! C15: time-sync estimates (frames_ahead, ping) are right; wait advice is sane.
use crate::explore::{explore, ExploreCfg};
use crate::props::core::base_scn;
use crate::report::Report;
use crate::scenario::*;
use crate::types::{Pred, Program};
use crate::world::{Ev, ExecResult, Violation, R_NOT_ENOUGH_DATA, R_NOT_SYNC, R_OK};
use serde_json::json;
use std::sync::atomic::{AtomicU64, Ordering};
use std::time::Duration;

pub const CK_STATS: u32 = 1 << 22;
static THROTTLED: AtomicU64 = AtomicU64::new(0);
static WAITS: AtomicU64 = AtomicU64::new(0);
static POINTS_WITH_LEAD: AtomicU64 = AtomicU64::new(0);
static SPECLINK_PINGS: AtomicU64 = AtomicU64::new(0);
static AFTER_DROP: AtomicU64 = AtomicU64::new(0);

fn v(kind: &str, node: usize, round: i32, detail: String) -> Violation {
    Violation { prop: "C15", kind: kind.to_owned(), detail, round, node }
}

fn intended_lead(scn: &Scenario) -> i32 {
    scn.name.split("lead=").nth(1).and_then(|s| s.split(' ').next()).and_then(|s| s.parse().ok()).unwrap_or(0)
}

/// The host<->spectator link: ping on both ends, errors before numbers.
fn judge_spectator_link(scn: &Scenario, res: &ExecResult) -> Vec<Violation> {
    let mut out = Vec::new();
    let round_ms = scn.round_us as f64 / 1000.0;
    let lat_ms = 2.0 * scn.latency as f64 * round_ms;
    for (ni, nt) in res.nodes.iter().enumerate() {
        if nt.crashed.is_some() || (ni < scn.peers.len() && !scn.specs.iter().any(|sp| sp.host == scn.peers[ni].addr)) {
            continue;
        }
        let who = if nt.is_spec { "spectator" } else { "host (for its spectator)" };
        for c in &nt.calls {
            let age_ms = (c.t_us - 1_000_000) / 1000;
            if scn.handshake_phase && age_ms < 1000 && c.stats.0 == R_OK {
                out.push(v("stats-too-early", ni, c.round, format!("{who}: network_stats() returned numbers {age_ms} ms after the session was created (ping {})", c.stats.1)));
                return out;
            }
            if c.stats.0 != R_OK && c.stats.0 != R_NOT_ENOUGH_DATA && c.stats.0 != R_NOT_SYNC && c.stats.0 != 255 {
                out.push(v("stats-wrong-error", ni, c.round, format!("{who}: network_stats() failed with code {}", c.stats.0)));
                return out;
            }
        }
        if scn.handshake_phase {
            continue;
        }
        let Some(c) = nt.calls.last() else { continue };
        if nt.calls.len() < 120 {
            continue;
        }
        if c.stats.0 != R_OK {
            out.push(v("stats-error-late", ni, c.round, format!("{who}: network_stats() fails with code {} after {} rounds", c.stats.0, c.round)));
            continue;
        }
        let ping = c.stats.1 as f64;
        SPECLINK_PINGS.fetch_add(1, Ordering::Relaxed);
        if (ping - lat_ms).abs() > round_ms + 1.0 {
            out.push(v("ping-wrong", ni, c.round, format!("{who}: network_stats().ping = {ping} ms; the link's round trip is {lat_ms:.1} ms (one tick = {round_ms:.1} ms)")));
        }
    }
    out
}

/// A remote the session was ahead of drops out: the estimate must come back to the lead over
/// the peers that are left (zero here), and the advice must stop.
fn judge_after_drop(scn: &Scenario, res: &ExecResult) -> Vec<Violation> {
    let mut out = Vec::new();
    let nt = &res.nodes[0];
    if nt.crashed.is_some() {
        return out;
    }
    let Some(disc_round) = nt.events.iter().find(|e| matches!(e.2, Ev::Disconnected { .. })).map(|e| e.0).or_else(|| scn.script.iter().find(|i| matches!(i.action, Action::Disconnect { .. })).map(|i| i.round)) else { return out };
    let Some(last) = nt.calls.last() else { return out };
    if last.round < disc_round + 150 {
        return out;
    }
    AFTER_DROP.fetch_add(1, Ordering::Relaxed);
    if last.ahead.abs() > 1 {
        out.push(v("frames-ahead-wrong", 0, last.round, format!("{} rounds after the remote it was ahead of was disconnected (round {disc_round}), with every remaining peer level, frames_ahead() is {}", last.round - disc_round, last.ahead)));
    }
    if let Some(e) = nt.events.iter().find(|e| matches!(e.2, Ev::Wait { .. }) && e.0 > disc_round + 70) {
        out.push(v("wait-recommendation-wrong", 0, e.0, format!("{:?} in round {}, {} rounds after the remote the session was ahead of was disconnected", e.2, e.0, e.0 - disc_round)));
    }
    out
}

pub fn judge(scn: &Scenario, res: &ExecResult, _b: Option<&ExecResult>) -> Vec<Violation> {
    let mut out = Vec::new();
    if scn.stats_spectator {
        return judge_spectator_link(scn, res);
    }
    if scn.name.starts_with("c15-drop") {
        return judge_after_drop(scn, res);
    }
    let (a, b) = (&res.nodes[0], &res.nodes[1]);
    if a.crashed.is_some() || b.crashed.is_some() {
        return out;
    }
    let round_ms = scn.round_us as f64 / 1000.0;
    // ---- errors before numbers (handshake-phase scenarios make calls from session creation on)
    if scn.handshake_phase {
        for (ni, nt) in res.nodes.iter().enumerate().take(2) {
            for c in &nt.calls {
                let age_ms = (c.t_us - 1_000_000) / 1000;
                let early = age_ms < 1000;
                if early && c.stats.0 == R_OK {
                    out.push(v("stats-too-early", ni, c.round, format!("network_stats() returned numbers {age_ms} ms after the session was created (ping {})", c.stats.1)));
                    return out;
                }
                if !early && age_ms > 1100 && c.stats.0 != R_OK && c.running {
                    out.push(v("stats-error-late", ni, c.round, format!("network_stats() still fails with code {} {age_ms} ms after creation although the session is Running", c.stats.0)));
                    return out;
                }
                if c.stats.0 != R_OK && c.stats.0 != R_NOT_ENOUGH_DATA && c.stats.0 != R_NOT_SYNC {
                    out.push(v("stats-wrong-error", ni, c.round, format!("network_stats() failed with code {}", c.stats.0)));
                    return out;
                }
            }
        }
        return out;
    }
    // ---- wait recommendations
    for (ni, nt) in res.nodes.iter().enumerate().take(2) {
        let mut last_frame: Option<i32> = None;
        for (r, _, e) in &nt.events {
            if let Ev::Wait { skip } = e {
                WAITS.fetch_add(1, Ordering::Relaxed);
                let Some(c) = nt.calls.iter().find(|c| c.round == *r) else { continue };
                if c.ahead < 3 || *skip as i32 != c.ahead {
                    out.push(v("wait-recommendation-wrong", ni, *r, format!("WaitRecommendation {{ skip_frames: {skip} }} drained in round {r} where frames_ahead() is {}", c.ahead)));
                }
                if let Some(lf) = last_frame {
                    if c.cur - lf < 60 {
                        out.push(v("wait-recommendation-too-frequent", ni, *r, format!("two WaitRecommendations {} frames apart (frames {lf} and {})", c.cur - lf, c.cur)));
                    }
                }
                last_frame = Some(c.cur);
            }
        }
        // a session that is steadily >= 3 ahead must be told so
        if nt.calls.len() >= 200 {
            let always_ahead = nt.calls[nt.calls.len() - 150..].iter().all(|c| c.ahead >= 3);
            let told = nt.events.iter().any(|e| matches!(e.2, Ev::Wait { .. }) && e.0 >= nt.calls[nt.calls.len() - 150].round);
            if always_ahead && !told {
                out.push(v("wait-recommendation-missing", ni, 0, "frames_ahead() >= 3 during the last 150 calls but no WaitRecommendation was raised".to_owned()));
            }
        }
    }
    // ---- steady state: the last 30 rounds, after a warm-up of at least 3 s
    let n = a.calls.len().min(b.calls.len());
    if n < 60 {
        return out;
    }
    // the same against the lead measured from the two sessions' frame counters instead of the
    // session's own estimate: a leader that is >= 4 frames ahead for the last 150 rounds (so that
    // 'about' still means >= 3) must have been told at least once in that time
    if n >= 200 {
        for (ni, sign) in [(0usize, 1i32), (1, -1)] {
            let led = (n - 150..n).all(|i| sign * (a.calls[i].cur - b.calls[i].cur) >= 4);
            let from_round = res.nodes[ni].calls[n - 150].round;
            let told = res.nodes[ni].events.iter().any(|e| matches!(e.2, Ev::Wait { .. }) && e.0 >= from_round);
            if led && !told {
                out.push(v("wait-recommendation-missing", ni, 0, format!("session {ni} was at least 4 frames ahead of the other one during the last 150 rounds but no WaitRecommendation was raised")));
            }
        }
    }
    let tail = 30;
    let lead: Vec<i32> = (n - tail..n).map(|i| a.calls[i].cur - b.calls[i].cur).collect();
    let steady = lead.iter().max() == lead.iter().min();
    if !steady {
        // the lead is not constant in the tail (throttling by the window beats against the tick
        // pattern): the statement is about constant leads, nothing to judge
        THROTTLED.fetch_add(1, Ordering::Relaxed);
        return out;
    }
    let l = lead[0];
    if l != intended_lead(scn) {
        THROTTLED.fetch_add(1, Ordering::Relaxed);
    }
    if l != 0 {
        POINTS_WITH_LEAD.fetch_add(1, Ordering::Relaxed);
    }
    let (fa, fb) = (a.calls[n - 1].ahead, b.calls[n - 1].ahead);
    if (fa - l).abs() > 1 || (fb + l).abs() > 1 || (fa + fb).abs() > 1 {
        out.push(v("frames-ahead-wrong", 0, a.calls[n - 1].round, format!(
            "steady lead of session 0 over session 1: {l} frames; frames_ahead() = {fa} / {fb} (expected about {l} / {})", -l)));
    }
    // ---- ping and frames-behind figures
    let lat_ms = 2.0 * scn.latency as f64 * round_ms;
    for (ni, nt) in res.nodes.iter().enumerate().take(2) {
        let c = &nt.calls[n - 1];
        if c.stats.0 != R_OK {
            out.push(v("stats-error-late", ni, c.round, format!("network_stats() fails with code {} after {} rounds", c.stats.0, c.round)));
            continue;
        }
        let ping = c.stats.1 as f64;
        if (ping - lat_ms).abs() > round_ms + 1.0 {
            out.push(v("ping-wrong", ni, c.round, format!("network_stats().ping = {ping} ms; the link's round trip is {lat_ms:.1} ms (one tick = {round_ms:.1} ms)")));
        }
    }
    // the remote figure is the other side's local figure as carried by its latest quality report
    // (one every 200 ms): it must be a value the other side's local figure actually took within
    // the last report interval + one-way latency + one round
    let back = (200.0 / round_ms).ceil() as usize + scn.latency.max(0) as usize + 2;
    for (x, y, xi) in [(a, b, 0usize), (b, a, 1)] {
        let cx = &x.calls[n - 1];
        if cx.stats.0 != R_OK {
            continue;
        }
        let lo = n.saturating_sub(1 + back);
        let window: Vec<i32> = y.calls[lo..n].iter().filter(|c| c.stats.0 == R_OK).map(|c| c.stats.2).collect();
        if !window.is_empty() && !window.contains(&cx.stats.3) {
            out.push(v("frames-behind-mismatch", xi, cx.round, format!(
                "session {xi} reports remote frames behind = {}; the other session's local figure took the values {:?} during the last {back} rounds (one quality-report interval plus the latency): one side's local figure must be what the other reports as remote", cx.stats.3, {
                    let mut w = window.clone();
                    w.sort_unstable();
                    w.dedup();
                    w
                })));
        }
    }
    out
}

pub fn c15() -> i32 {
    let mut rep = Report::new("C15", "model_checking");
    let t = rep.thorough();
    rep.rule = "grid enumeration: intended lead -7..=7 x one-way latency x fps x window x delay x tick pattern (burst at the start, one frame at a time), each point one deterministic run of 12 virtual seconds; the realised lead is measured (leads the window or latency does not allow are throttled and only counted); plus handshake-phase runs for the NotSynchronized / NotEnoughData clause; non-trivial = every grid point; distinct = trace fingerprints".to_owned();
    rep.assumptions = vec!["'about' = within one frame / one tick; only schedules whose lead is constant over the last 30 rounds are judged for frames_ahead()".into(), "latency is symmetric and an integral number of rounds (frame periods)".into()];
    let props = ["C15", "PANIC"];
    let mut scns = Vec::new();
    let fpss: Vec<usize> = if t { vec![30, 50, 60, 120] } else { vec![60] };
    let lats: Vec<i32> = if t { vec![0, 1, 2, 3, 4, 6] } else { vec![0, 1, 3] };
    for &fps in &fpss {
        for &lat in &lats {
            for w in [8usize, 12] {
                for d in [0usize, 2] {
                    if !t && (w == 12) != (d == 2) {
                        continue;
                    }
                    for lead in -7i32..=7 {
                        for pattern in 0..2 {
                            if lead == 0 && pattern == 1 {
                                continue;
                            }
                            let mut s = base_scn("c15", "1+1", w, d, false, Pred::RepeatLast, Program::Changing, lat);
                            s.fps = fps;
                            s.round_us = 1_000_000 / fps as u64;
                            let follower = if lead >= 0 { 1 } else { 0 };
                            let k = lead.abs();
                            // the follower skips k ticks: all at the start, or one every 6th round
                            for i in 0..k {
                                let r = if pattern == 0 { 2 + i } else { 2 + 6 * i };
                                s.script.push(ScriptItem { round: r, node: follower, action: Action::Sleep { us: 0 } });
                                s.scripted_stalls.push((follower, r));
                            }
                            s.name = format!("{} fps={fps} lead={lead} pattern={pattern}", s.name);
                            s.horizon = 0;
                            s.probe = 12 * fps as i32;
                            s.checks = CK_C02 | CK_STATS;
                            scns.push(s);
                        }
                    }
                }
            }
        }
    }
    // round trips longer than the 200 ms quality-report interval (a reply then arrives after the
    // next report was sent): level peers and small leads, wide window
    for &fps in &fpss {
        for lat in [7, 9, 13] {
            for lead in [0i32, 2, -3] {
                let mut s = base_scn("c15-long-rtt", "1+1", 40, 0, false, Pred::RepeatLast, Program::Changing, lat);
                s.fps = fps;
                s.round_us = 1_000_000 / fps as u64;
                let follower = if lead >= 0 { 1 } else { 0 };
                for i in 0..lead.abs() {
                    s.scripted_stalls.push((follower, 2 + i));
                }
                s.name = format!("{} fps={fps} lead={lead} pattern=0", s.name);
                s.horizon = 0;
                s.probe = 12 * fps as i32;
                s.checks = CK_C02 | CK_STATS;
                scns.push(s);
            }
        }
    }
    // lockstep sessions (window 0): the input delay is what lets one peer run ahead
    for &fps in &fpss {
        for d in [4usize, 6, 9] {
            for lat in [0, 1] {
                for lead in -6i32..=6 {
                    if !t && lead.abs() % 2 == 1 && lead.abs() != 3 {
                        continue;
                    }
                    let mut s = base_scn("c15-lockstep", "1+1", 0, d, false, Pred::RepeatLast, Program::Changing, lat);
                    s.fps = fps;
                    s.round_us = 1_000_000 / fps as u64;
                    let follower = if lead >= 0 { 1 } else { 0 };
                    for i in 0..lead.abs() {
                        s.scripted_stalls.push((follower, 2 + i));
                    }
                    s.name = format!("{} fps={fps} lead={lead} pattern=0", s.name);
                    s.horizon = 0;
                    s.probe = 12 * fps as i32;
                    s.checks = CK_C02 | CK_STATS;
                    scns.push(s);
                }
            }
        }
    }
    // round trips below one millisecond (the measured ping is then 0 ms, a legitimate value)
    for fps in [1000usize, 2000, 4000] {
        for lead in [0i32, 4, -5] {
            for lat in [0, 1] {
                let mut s = base_scn("c15-submillisecond", "1+1", 12, 0, false, Pred::RepeatLast, Program::Changing, lat);
                s.fps = fps;
                s.round_us = 1_000_000 / fps as u64;
                let follower = if lead >= 0 { 1 } else { 0 };
                for i in 0..lead.abs() {
                    s.scripted_stalls.push((follower, 2 + i));
                }
                s.name = format!("{} fps={fps} lead={lead} pattern=0", s.name);
                s.horizon = 0;
                s.probe = 3 * fps as i32;
                s.checks = CK_C02 | CK_STATS;
                scns.push(s);
            }
        }
    }
    // applications that poll more often than they tick, on a zero-latency link: a quality report
    // and its reply fall into the same instant, the measured round trip is exactly 0 ms
    for fps in [60usize, 30] {
        for lead in [0i32, 3, 4, -6] {
            let mut s = base_scn("c15-zero-rtt", "1+1", 12, 0, false, Pred::RepeatLast, Program::Changing, 0);
            s.fps = fps;
            s.round_us = 1_000_000 / fps as u64;
            s.extra_polls = true;
            let follower = if lead >= 0 { 1 } else { 0 };
            for i in 0..lead.abs() {
                s.scripted_stalls.push((follower, 2 + i));
            }
            s.name = format!("{} fps={fps} lead={lead} pattern=0", s.name);
            s.horizon = 0;
            s.probe = 12 * fps as i32;
            s.checks = CK_C02 | CK_STATS;
            scns.push(s);
        }
    }
    // leads that change: the leader gives frames back (stalls) some time after warm-up, or a
    // loss burst hits the link - the gap between current and confirmed frame shrinks or grows
    // between two recommendations
    for lead in [4i32, 7] {
        for at in (20..200).step_by(if t { 10 } else { 30 }) {
            for give_back in [1, 3, 5] {
                for kind in 0..2 {
                    let mut s = base_scn("c15-varying-lead", "1+1", 12, 0, false, Pred::RepeatLast, Program::Changing, 1);
                    for i in 0..lead {
                        s.scripted_stalls.push((1, 2 + i));
                    }
                    if kind == 0 {
                        for i in 0..give_back {
                            s.scripted_stalls.push((0, at + i));
                        }
                    } else {
                        let (a, b) = (s.peers[0].addr, s.peers[1].addr);
                        s.outages.push(crate::net::Outage { from: b, to: a, start: at, len: 2 * give_back, classes: crate::wire::CLASS_ALL });
                    }
                    s.name = format!("{} fps=60 lead={lead} pattern=0 change-at={at} by={give_back} kind={kind}", s.name);
                    s.horizon = at + 12;
                    s.probe = 6 * 60;
                    s.checks = CK_C02 | CK_STATS;
                    scns.push(s);
                }
            }
        }
    }
    // the host<->spectator link: the host's network_stats(spectator handle) and the spectator's
    // network_stats(), all-local hosts and hosts with a remote player
    for fps in [60usize, 30] {
        for lat in [0, 1, 3, 6] {
            for (tp, hs) in [("2", false), ("1+1", false), ("1", true), ("1+1", true)] {
                let mut s = base_scn("c15-spectator-link", tp, 8, 0, false, Pred::RepeatLast, Program::Changing, lat);
                s.specs.push(SpecSpec::new(20, s.peers[0].addr));
                s.fps = fps;
                s.round_us = 1_000_000 / fps as u64;
                s.stats_spectator = true;
                s.handshake_phase = hs;
                s.horizon = 0;
                s.probe = if hs { 2 * fps as i32 } else { 6 * fps as i32 };
                s.checks = CK_C02 | CK_STATS;
                s.name = format!("{} fps={fps} handshake={hs}", s.name);
                scns.push(s);
            }
        }
    }
    // the remote a session is ahead of drops out (dies, or is disconnected explicitly); with
    // three peers the other remote runs level
    for (tp, lead) in [("1+1", 5i32), ("1+1+1", 4), ("1+1+1", 7)] {
        for explicit in [false, true] {
            let mut s = base_scn("c15-drop", tp, 12, 0, false, Pred::RepeatLast, Program::Changing, 1);
            for p in s.peers.iter_mut() {
                p.notify_ms = 100;
                p.timeout_ms = 300;
            }
            let victim = s.peers.len() - 1;
            for i in 0..lead {
                s.scripted_stalls.push((victim, 2 + i));
            }
            let h = s.peers[victim].locals[0];
            if explicit && s.peers.len() == 2 {
                s.script.push(ScriptItem { round: 200, node: 0, action: Action::Disconnect { handle: h } });
            } else {
                s.script.push(ScriptItem { round: 200, node: victim, action: Action::Die });
            }
            s.name = format!("{} fps=60 lead={lead} over the last peer, which drops at round 200 (explicit={explicit})", s.name);
            s.horizon = 0;
            s.probe = 480;
            s.checks = CK_C02 | CK_STATS;
            scns.push(s);
        }
    }
    // a peer with two local players whose input delays differ (set_input_delay for one of them
    // before the first frame): what that peer reports about its players (their last frames, one
    // ahead of the other by the difference of the delays) is not how far it has got
    for tp in ["2+1", "1+2"] {
        for dd in [2usize, 4, 8] {
            for lead in [0i32, 3, -4] {
                for lat in [0, 1] {
                    let mut s = base_scn("c15-two-locals-different-delays", tp, 12, 0, false, Pred::RepeatLast, Program::Changing, lat);
                    let owner = if tp == "2+1" { 0 } else { 1 };
                    let h = s.peers[owner].locals[1];
                    s.script.push(ScriptItem { round: 0, node: owner, action: Action::SetDelay { handle: h, delay: dd } });
                    let follower = if lead >= 0 { 1 } else { 0 };
                    for i in 0..lead.abs() {
                        s.scripted_stalls.push((follower, 2 + i));
                    }
                    s.name = format!("{} fps=60 lead={lead} pattern=0 second local player of peer {owner} delayed by {dd}", s.name);
                    s.horizon = 0;
                    s.probe = 12 * 60;
                    s.checks = CK_C02 | CK_STATS;
                    scns.push(s);
                }
            }
        }
    }
    // errors before numbers
    for fps in [60usize, 30] {
        for lat in [0, 2] {
            let mut s = base_scn("c15-early", "1+1", 8, 0, false, Pred::RepeatLast, Program::Changing, lat);
            s.fps = fps;
            s.round_us = 1_000_000 / fps as u64;
            s.handshake_phase = true;
            s.horizon = 0;
            s.probe = 2 * fps as i32;
            s.checks = CK_C02 | CK_STATS;
            s.name = format!("{} fps={fps}", s.name);
            scns.push(s);
        }
    }
    let n = scns.len();
    let cfg = ExploreCfg { k: Some(0), wall: Duration::from_secs(if t { 1800 } else { 50 }), ..Default::default() };
    let mut out = explore(&scns, &cfg, &judge);
    for s in &scns {
        let mut h = 0xcbf2_9ce4_8422_2325u64;
        crate::types::fnv(&mut h, s.name.as_bytes());
        out.nontrivial.insert(h);
    }
    rep.absorb("grid over (fps, latency, window, delay, lead, pattern)", out, &props, json!({"k": 0, "grid_points": n, "leads": "-7..=7", "latencies_rounds": lats, "fps": fpss}));
    let thr = THROTTLED.load(Ordering::Relaxed);
    let waits = WAITS.load(Ordering::Relaxed);
    let with_lead = POINTS_WITH_LEAD.load(Ordering::Relaxed);
    rep.coverage.insert("grid_points_whose_realised_lead_differs_from_the_intended_or_is_not_constant".into(), json!(thr));
    rep.coverage.insert("grid_points_judged_with_nonzero_constant_lead".into(), json!(with_lead));
    rep.coverage.insert("wait_recommendations_checked".into(), json!(waits));
    rep.coverage.insert("sessions_judged_after_the_remote_they_led_dropped".into(), json!(AFTER_DROP.load(Ordering::Relaxed)));
    let sp = SPECLINK_PINGS.load(Ordering::Relaxed);
    rep.coverage.insert("host_spectator_link_pings_checked".into(), json!(sp));
    if sp == 0 {
        rep.machinery.push("vacuous: no ping was ever read on a host<->spectator link".to_owned());
    }
    if waits == 0 || with_lead < 10 {
        rep.machinery.push(format!("vacuous: {waits} WaitRecommendations, {with_lead} points with a non-zero constant lead"));
    }
    rep.finish()
}
