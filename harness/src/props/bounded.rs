//! C18: internal buffers stay bounded over long sessions.
use crate::explore::{explore, ExploreCfg};
use crate::net::{Fate, Outage};
use crate::props::core::{base_scn, packet_faults};
use crate::report::Report;
use crate::scenario::*;
use crate::types::{Pred, Program};
use crate::wire::*;
use crate::world::{ExecResult, Violation};
use serde_json::json;
use std::time::Duration;

fn v(kind: &str, node: usize, round: i32, detail: String) -> Violation {
    Violation { prop: "C18", kind: kind.to_owned(), detail, round, node }
}

const NAMES: [&str; 4] = ["event queue", "outgoing local inputs", "local checksum history", "pending local inputs"];
const EP_NAMES: [&str; 6] = ["pending output", "received inputs", "pending checksums", "send queue", "endpoint event queue", "handshake nonces"];

pub fn judge(scn: &Scenario, res: &ExecResult, _b: Option<&ExecResult>) -> Vec<Violation> {
    let mut out = Vec::new();
    for (ni, nt) in res.nodes.iter().enumerate() {
        if nt.crashed.is_some() || nt.size_series.is_empty() {
            continue;
        }
        let (w, locals) = if ni < scn.peers.len() { (scn.peers[ni].window, scn.peers[ni].locals.len()) } else { (scn.specs[ni - scn.peers.len()].window, 0) };
        let d = if ni < scn.peers.len() { scn.peers.iter().map(|p| p.delay).max().unwrap_or(0) } else { 0 };
        let n = nt.size_series.len();
        let width = nt.size_series.iter().map(Vec::len).max().unwrap_or(0);
        for col in 0..width {
            let name = if col < 4 { NAMES[col].to_owned() } else { format!("endpoint #{} {}", (col - 4) / 6, EP_NAMES[(col - 4) % 6]) };
            let bound: Option<u32> = if col < 4 {
                match col {
                    0 => Some(100),
                    1 => Some(if locals > 1 { 8 } else { 1 }),
                    2 => Some(33),
                    _ => Some(locals as u32),
                }
            } else {
                match (col - 4) % 6 {
                    // the cap (128) is enforced at the next poll; until then one call can add as
                    // many frames as the confirmed frame can jump (window + delay + 1)
                    0 => Some(129 + w as u32 + d as u32 + 2),
                    1 => Some(2 * w as u32 + 2),
                    2 => Some(33),
                    // messages/events queued by advance_frame after its poll (checksum report,
                    // the cap's Disconnected) wait for the next poll: small, not zero
                    3 => Some(4),
                    4 => Some(8),
                    _ => None,
                }
            };
            let series: Vec<u32> = nt.size_series.iter().map(|r| r.get(col).copied().unwrap_or(0)).collect();
            if let Some(b) = bound {
                if let Some((i, x)) = series.iter().enumerate().find(|(_, x)| **x > b) {
                    out.push(v("buffer-over-bound", ni, i as i32, format!("{name} of session {ni} held {x} entries after call #{i} (bound {b})")));
                    return out;
                }
            }
            // plateau: no growth between the middle third and the last third of the run
            if n >= 300 {
                let mid = series[n / 3..2 * n / 3].iter().max().copied().unwrap_or(0);
                let last = series[2 * n / 3..].iter().max().copied().unwrap_or(0);
                // periodic background faults beat against the protocol timers with long periods:
                // allow a small fluctuation, far below what a leak of one entry per 100 calls adds
                if last > mid + 2 + mid / 8 {
                    out.push(v("buffer-still-growing", ni, n as i32, format!("{name} of session {ni}: maximum {mid} in the middle third of the run, {last} in the last third ({n} calls)")));
                    return out;
                }
            }
        }
    }
    out
}

pub fn c18() -> i32 {
    let mut rep = Report::new("C18", "fault_enumeration");
    let t = rep.thorough();
    let rounds = if t { 5000 } else { 1500 };
    rep.rule = "grid of long runs (topology x window x delay x desync interval x events drained or not x background network) with the buffer-size accessor read after every call, plus one extra deviation at every choice point of windows placed across ring wraps; hard bounds per buffer and a plateau rule (no growth between the middle and the last third of the run); non-trivial = every configuration (roots) and every deviating run; distinct = trace fingerprints".to_owned();
    rep.assumptions = vec![format!("{rounds} rounds per run; boundedness beyond that is extrapolated from the plateau, not proved"), "bounds: event queue 100, outgoing local inputs 1 (8 with several local players), checksum histories 32(+1), pending output 128(+1), received inputs 2*window+2, send queue 0 after a call".into()];
    let props = ["C18", "PANIC"];
    let mut scns = Vec::new();
    #[derive(Clone, Copy, PartialEq)]
    enum Bg { Clean, Lossy, AckOutage }
    // all-local sessions
    for n_local in [1usize, 2] {
        for w in [0usize, 1, 8] {
            for d in [0usize, 3] {
                for drain in [true, false] {
                    let mut p = PeerSpec::new(10, (0..n_local).collect(), w, d, false);
                    p.drain = drain;
                    let mut s = Scenario::new(&format!("c18-all-local:{n_local} w={w} d={d} drain={drain}"), n_local, vec![p]);
                    s.horizon = 0;
                    s.probe = rounds;
                    s.checks = CK_C02 | CK_C04;
                    // the same host with one and two spectators (its only endpoints)
                    if drain || w == 8 {
                        for nspec in [1usize, 2] {
                            let mut x = s.clone();
                            for k in 0..nspec {
                                x.specs.push(SpecSpec::new(20 + k as u8, 10));
                            }
                            x.name = format!("{} spectators={nspec}", x.name);
                            scns.push(x);
                        }
                    }
                    scns.push(s);
                }
            }
        }
    }
    let mut tops: Vec<(&str, usize)> = vec![("1+1", 0), ("2+1", 0), ("1+1+1", 0), ("1+1", 1), ("1+1", 2), ("1+1", 3)];
    if t {
        tops.extend([("2+2", 0), ("1+1+1+1", 0), ("3+1", 1), ("2+2", 3)]);
    }
    for (tp, spec) in tops {
        for w in [0usize, 1, 8] {
            for d in [0usize, 3] {
                for desync in [0u32, 1, 7] {
                    for drain in [true, false] {
                        for bg in [Bg::Clean, Bg::Lossy, Bg::AckOutage] {
                            if !t {
                                // quick: a covering selection
                                let key = (w + d + desync as usize + usize::from(drain) + spec) % 3;
                                if key != match bg { Bg::Clean => 0, Bg::Lossy => 1, Bg::AckOutage => 2 } {
                                    continue;
                                }
                                if tp == "1+1+1" && (w == 1 || desync == 7) {
                                    continue;
                                }
                            }
                            let mut s = base_scn("c18-long", tp, w, d, false, Pred::RepeatLast, Program::Changing, 1);
                            for p in s.peers.iter_mut() {
                                p.desync = desync;
                                p.drain = drain;
                            }
                            let a = s.peers[0].addr;
                            let b = s.peers[1].addr;
                            match spec {
                                0 => {}
                                1 => s.specs.push(SpecSpec::new(20, a)),
                                2 => {
                                    // silent spectator: never polls after the handshake
                                    let mut sp = SpecSpec::new(20, a);
                                    sp.silent_from = Some(30);
                                    s.specs.push(sp);
                                }
                                _ => {
                                    // a spectator that stops acknowledging at round 200 (its
                                    // keep-alives still flow, so no timeout hides the cap)
                                    s.specs.push(SpecSpec::new(20, a));
                                    s.outages.push(Outage { from: 20, to: a, start: 200, len: rounds, classes: CLASS_INPUT_ACK });
                                }
                            }
                            match bg {
                                Bg::Clean => {}
                                Bg::Lossy => s.background = Background { loss_every: 7, delay_every: 11, stall_every: 13 },
                                Bg::AckOutage => {
                                    // acknowledgements b->a are lost in long bursts (inputs still flow)
                                    let mut st = 50;
                                    while st < rounds {
                                        s.outages.push(Outage { from: b, to: a, start: st, len: 60, classes: CLASS_INPUT_ACK });
                                        st += 200;
                                    }
                                }
                            }
                            s.name = format!("{} spectator-kind={spec} desync={desync} drain={drain} bg={}", s.name, match bg { Bg::Clean => "clean", Bg::Lossy => "lossy", Bg::AckOutage => "ack-outages" });
                            s.horizon = rounds;
                            s.probe = 0;
                            s.checks = if spec >= 2 { CK_C02 | CK_C04 } else { CK_CORE };
                            scns.push(s);
                        }
                    }
                }
            }
        }
    }
    // checksum reports that never find a partner: sparse saving (irregular report frames), or one
    // peer that saves without checksums, with and without loss
    for (w, desync) in [(8usize, 1u32), (2, 3), (8, 7)] {
        for variant in 0..3 {
            for lossy in [false, true] {
                let sparse = variant == 0;
                let mut s = base_scn("c18-unmatched-checksums", "1+1", w, 0, sparse, Pred::RepeatLast, Program::Changing, 1);
                for p in s.peers.iter_mut() {
                    p.desync = desync;
                }
                if variant == 1 {
                    s.no_checksum = vec![0];
                }
                if variant == 2 {
                    s.peers[1].tick_every = 2;
                }
                if lossy {
                    s.background = Background { loss_every: 5, delay_every: 11, stall_every: 0 };
                    let (a, b) = (s.peers[0].addr, s.peers[1].addr);
                    let mut st = 40;
                    while st < rounds {
                        s.outages.push(Outage { from: b, to: a, start: st, len: 3, classes: 1 << K_CHECKSUM });
                        st += 37;
                    }
                }
                s.name = format!("{} desync={desync} variant={variant} lossy={lossy}", s.name);
                s.horizon = rounds;
                s.probe = 0;
                s.checks = CK_C02 | CK_C04;
                scns.push(s);
            }
        }
    }
    // every remote peer is lost (dies, or is disconnected explicitly) and the survivor goes on
    for (tp, deaths) in [("1+1", vec![1usize]), ("1+1+1", vec![1, 2]), ("2+1", vec![1])] {
        for w in [0usize, 1, 8] {
            for d in [0usize, 3] {
                for explicit in [false, true] {
                    if !t && (tp == "1+1+1" && w == 1 || explicit && d == 3) {
                        continue;
                    }
                    let mut s = base_scn("c18-peers-lost", tp, w, d, false, Pred::RepeatLast, Program::Changing, 1);
                    for p in s.peers.iter_mut() {
                        p.notify_ms = 100;
                        p.timeout_ms = 300;
                        p.desync = 3;
                    }
                    for (i, dn) in deaths.iter().enumerate() {
                        if explicit {
                            let h = s.peers[*dn].locals[0];
                            s.script.push(ScriptItem { round: 60 + 0 * i as i32, node: 0, action: Action::Disconnect { handle: h } });
                        }
                        s.script.push(ScriptItem { round: 60 + 0 * i as i32, node: *dn, action: Action::Die });
                    }
                    s.name = format!("{} all remote peers lost explicit={explicit}", s.name);
                    s.horizon = rounds;
                    s.probe = 0;
                    s.checks = CK_C02 | CK_C04;
                    scns.push(s);
                }
            }
        }
    }
    // events never drained on a flaky link (NetworkInterrupted / NetworkResumed pile up), with an
    // application that also polls on its own before every tick: the sizes are read after those
    // bare polls too
    for (w, polls) in [(8usize, true), (2, true), (8, false)] {
        let mut s = base_scn("c18-undrained-flaky", "1+1", w, 0, false, Pred::RepeatLast, Program::Changing, 1);
        for p in s.peers.iter_mut() {
            p.notify_ms = 50;
            p.timeout_ms = 5000;
            p.drain = false;
        }
        let (a, b) = (s.peers[0].addr, s.peers[1].addr);
        let mut st = 5;
        while st + 8 < rounds {
            s.outages.push(Outage { from: b, to: a, start: st, len: 6, classes: CLASS_ALL });
            s.outages.push(Outage { from: a, to: b, start: st, len: 6, classes: CLASS_ALL });
            st += 12;
        }
        if polls {
            for r in 0..rounds {
                s.script.push(ScriptItem { round: r, node: 0, action: Action::Poll });
            }
        }
        s.name = format!("{} polls-before-every-tick={polls}", s.name);
        s.horizon = rounds;
        s.probe = 0;
        s.checks = CK_C02 | CK_C04;
        scns.push(s);
    }
    // games that really diverge, with desync detection on: a DesyncDetected event per report and
    // remote, for the whole run, drained or never drained
    for (tp, w, desync) in [("1+1", 8usize, 1u32), ("1+1+1", 8, 1), ("1+1", 2, 3), ("2+1", 0, 1)] {
        for drain in [true, false] {
            for lossy in [false, true] {
                let mut s = base_scn("c18-desyncing", tp, w, 0, false, Pred::RepeatLast, Program::Changing, 1);
                for p in s.peers.iter_mut() {
                    p.desync = desync;
                    p.drain = drain;
                }
                s.diverge = Some((1, 20));
                if lossy {
                    s.background = Background { loss_every: 7, delay_every: 11, stall_every: 13 };
                }
                s.name = format!("{} desync={desync} drain={drain} lossy={lossy} node 1 diverges from frame 20", s.name);
                s.horizon = rounds;
                s.probe = 0;
                s.checks = CK_C02 | CK_C04;
                scns.push(s);
            }
        }
    }
    // a spectator is disconnected explicitly (disconnect_player with its handle), or dies, while
    // the players go on: nothing may keep growing for it
    for (tp, w) in [("1+1", 8usize), ("2+1", 2), ("1+1", 0)] {
        for explicit in [false, true] {
            for drain in [true, false] {
                let mut s = base_scn("c18-spectator-lost", tp, w, 0, false, Pred::RepeatLast, Program::Changing, 1);
                for p in s.peers.iter_mut() {
                    p.notify_ms = 100;
                    p.timeout_ms = 300;
                    p.drain = drain;
                }
                let a = s.peers[0].addr;
                s.specs.push(SpecSpec::new(20, a));
                let spec_handle = s.num_players;
                let spec_node = s.peers.len();
                if explicit {
                    s.script.push(ScriptItem { round: 50, node: 0, action: Action::Disconnect { handle: spec_handle } });
                } else {
                    s.script.push(ScriptItem { round: 50, node: spec_node, action: Action::Die });
                }
                s.name = format!("{} spectator lost explicit={explicit} drain={drain}", s.name);
                s.horizon = rounds;
                s.probe = 0;
                s.checks = CK_C02 | CK_C04;
                scns.push(s);
            }
        }
    }
    let n = scns.len();
    let cfg = ExploreCfg { k: Some(0), track_sizes: true, wall: Duration::from_secs(if t { 3000 } else { 50 }), ..Default::default() };
    let out = explore(&scns, &cfg, &judge);
    rep.absorb("long runs over the configuration grid", out, &props, json!({"k": 0, "rounds": rounds, "scenarios": n}));
    // one extra deviation at every choice point of windows placed across ring wraps
    {
        let mut scns = Vec::new();
        let wraps: Vec<i32> = if t { vec![30, 126, 254, 1022] } else { vec![126] };
        for wrap in wraps {
            for (w, desync, spec) in [(8usize, 1u32, true), (1, 0, false), (0, 7, false)] {
                let mut s = base_scn("c18-window", "1+1", w, 0, false, Pred::RepeatLast, Program::Changing, 1);
                for p in s.peers.iter_mut() {
                    p.desync = desync;
                    p.drain = false;
                }
                if spec {
                    s.specs.push(SpecSpec::new(20, s.peers[0].addr));
                }
                s.background = Background { loss_every: 7, delay_every: 11, stall_every: 13 };
                s.fault = packet_faults(wrap, 4, CLASS_RUNNING, vec![Fate::Drop, Fate::Delay(3)], 1);
                s.name = format!("{} desync={desync} window@{wrap}", s.name);
                s.horizon = wrap + 400;
                s.probe = 0;
                s.checks = CK_CORE;
                scns.push(s);
            }
        }
        let cfg = ExploreCfg { k: Some(1), track_sizes: true, wall: Duration::from_secs(if t { 1500 } else { 40 }), ..Default::default() };
        let n = scns.len();
        let out = explore(&scns, &cfg, &judge);
        rep.absorb("one extra packet/tick deviation at every choice point of a window across a ring wrap, under background loss", out, &props, json!({"k": 1, "configs": n}));
    }
    rep.finish()
}
