//! C09: desync detection raises no false alarm and catches real divergence.
use crate::explore::{explore, ExploreCfg};
use crate::net::{Fate, Outage, ScriptedFate};
use crate::props::core::{base_scn, packet_faults};
use crate::report::Report;
use crate::scenario::*;
use crate::types::{Pred, Program, INITIAL_HASH};
use crate::wire::*;
use crate::world::{Ev, ExecResult, Violation};
use serde_json::json;
use std::time::Duration;

pub static DETECTED: std::sync::atomic::AtomicU64 = std::sync::atomic::AtomicU64::new(0);
pub static NOT_REACHED: std::sync::atomic::AtomicU64 = std::sync::atomic::AtomicU64::new(0);

fn v(kind: &str, node: usize, round: i32, detail: String) -> Violation {
    Violation { prop: "C09", kind: kind.to_owned(), detail, round, node }
}

/// hash of the state a node had at frame f on its final timeline
fn state_at(res: &ExecResult, node: usize, f: i32) -> Option<u64> {
    if f == 0 {
        return Some(INITIAL_HASH);
    }
    res.nodes[node].sims.get(f as usize - 1).map(|x| x.hash_after)
}

pub fn judge(scn: &Scenario, res: &ExecResult, _b: Option<&ExecResult>) -> Vec<Violation> {
    let mut out = Vec::new();
    match scn.diverge {
        None => {
            for (ni, nt) in res.nodes.iter().enumerate() {
                for (r, _, e) in &nt.events {
                    if let Ev::Desync { frame, local, remote, addr } = e {
                        out.push(v("false-desync-alarm", ni, *r, format!(
                            "deterministic game, yet DesyncDetected {{ frame: {frame}, local_checksum: {local:x}, remote_checksum: {remote:x}, addr: {addr} }} in round {r}")));
                        return out;
                    }
                }
            }
        }
        Some((dn, g)) => {
            if res.cut.is_some() {
                return out;
            }
            // applications that only look at their events at the end of the run: the report must
            // be among the (at most 100, newest) events the queue then holds
            if scn.peers.iter().any(|p| !p.drain) {
                for (ni, nt) in res.nodes.iter().enumerate() {
                    if nt.is_spec || nt.crashed.is_some() {
                        continue;
                    }
                    for oj in (0..scn.peers.len()).filter(|j| *j != ni && (ni == dn || *j == dn)) {
                        let oaddr = scn.peers[oj].addr;
                        DETECTED.fetch_add(1, std::sync::atomic::Ordering::Relaxed);
                        if !nt.events.iter().any(|e| matches!(e.2, Ev::Desync { addr, frame, .. } if addr == oaddr && frame > g)) {
                            out.push(v("desync-missed", ni, 0, format!(
                                "node {dn}'s game diverges from frame {g} on; session {ni} never drained its events during the run, and the {} events its queue holds at the end contain no DesyncDetected for address {oaddr}", nt.events.len())));
                        }
                    }
                }
                return out;
            }
            let interval = scn.peers[0].desync as i32;
            let w = scn.peers[0].window as i32;
            let d = scn.peers.iter().map(|p| p.delay).max().unwrap_or(0) as i32;
            let burst = scn.outages.iter().map(|o| o.len).max().unwrap_or(0);
            let deadline_frame = g + 3 * interval + w + 2 * scn.latency + d + 6 + burst;
            for (ni, nt) in res.nodes.iter().enumerate() {
                if nt.is_spec || nt.crashed.is_some() {
                    continue;
                }
                // only pairs that include the diverging peer see different checksums
                let others: Vec<usize> = (0..scn.peers.len()).filter(|j| *j != ni && (ni == dn || *j == dn)).collect();
                for oj in others {
                    let oaddr = scn.peers[oj].addr;
                    let evs: Vec<(i32, i32, u128, u128)> = nt.events.iter().filter_map(|(r, _, e)| match e {
                        Ev::Desync { frame, local, remote, addr } if *addr == oaddr => Some((*r, *frame, *local, *remote)),
                        _ => None,
                    }).collect();
                    let reached = nt.calls.iter().find(|c| c.cur >= deadline_frame).map(|c| c.round);
                    let Some(limit_round) = reached else {
                        NOT_REACHED.fetch_add(1, std::sync::atomic::Ordering::Relaxed);
                        continue;
                    };
                    if !evs.is_empty() {
                        DETECTED.fetch_add(1, std::sync::atomic::Ordering::Relaxed);
                    }
                    let first = evs.first();
                    match first {
                        None => out.push(v("desync-missed", ni, limit_round, format!(
                            "node {dn}'s game diverges from frame {g} on (interval {interval}); session {ni} reached frame {deadline_frame} in round {limit_round} without any DesyncDetected for address {oaddr}"))),
                        Some(&(r, _, _, _)) if r > limit_round => out.push(v("desync-late", ni, r, format!(
                            "divergence from frame {g} (interval {interval}): first DesyncDetected for {oaddr} only in round {r}, after the session had passed frame {deadline_frame} (round {limit_round})"))),
                        _ => {}
                    }
                    for (r, frame, local, remote) in &evs {
                        if *frame <= g {
                            out.push(v("desync-frame-before-divergence", ni, *r, format!("DesyncDetected names frame {frame}; the states only differ after frame {g} was simulated")));
                        }
                        let l = state_at(res, ni, *frame).map(u128::from);
                        let o = state_at(res, oj, *frame).map(u128::from);
                        if l.is_some() && o.is_some() && (Some(*local) != l || Some(*remote) != o) {
                            out.push(v("desync-checksums-wrong", ni, *r, format!(
                                "DesyncDetected {{ frame: {frame}, local: {local:x}, remote: {remote:x} }} but the two games' final states at that frame hash to {:x} (local) and {:x} (remote)", l.unwrap(), o.unwrap())));
                        }
                    }
                }
                // pairs of two healthy peers must stay silent
                if ni != dn {
                    for (oj, op) in scn.peers.iter().enumerate() {
                        if oj != ni && oj != dn && nt.events.iter().any(|e| matches!(e.2, Ev::Desync { addr, .. } if addr == op.addr)) {
                            out.push(v("false-desync-alarm", ni, 0, format!("two peers whose games agree ({ni} and {oj}) reported a desync")));
                        }
                    }
                }
            }
        }
    }
    out
}

pub fn c09() -> i32 {
    let mut rep = Report::new("C09", "fault_enumeration");
    let t = rep.thorough();
    rep.rule = "false-alarm half: deviation-bounded enumeration (packet drop/dup/delay incl. ChecksumReports, peer stalls) and outage grids over intervals x windows x delays x saving modes with a deterministic game; detection half: every divergence frame g x interval x window (one peer's game perturbed from frame g on), k<=1 deviation; non-trivial = trace differs from the deviation-free run; distinct = trace fingerprints".to_owned();
    rep.assumptions = vec!["checksum = 64-bit hash of the whole game state; deadline for detection: the session has passed frame g + 3*interval + window + 2*latency + delay + 6".into()];
    let props = ["C09", "PANIC"];
    // ---- false alarms: D(k)
    {
        let mut scns = Vec::new();
        let intervals: Vec<u32> = if t { (1..=12).collect() } else { vec![1, 2, 5, 12] };
        for &iv in &intervals {
            for (tp, w, d, sparse) in [("1+1", 2usize, 0usize, false), ("1+1", 8, 2, true), ("1+1+1", 1, 0, false), ("1+1", 3, 1, true), ("1+1+1", 8, 2, false)] {
                if !t && (iv as usize + w) % 2 == 1 && tp == "1+1+1" {
                    continue;
                }
                let mut s = base_scn("c09-false", tp, w, d, sparse, Pred::RepeatLast, Program::Changing, 1);
                for p in s.peers.iter_mut() {
                    p.desync = iv;
                }
                s.name = format!("{} interval={iv}", s.name);
                s.horizon = 3 + 2 * iv as i32 + 6;
                s.probe = 3 * iv as i32 + 30;
                s.checks = CK_CORE;
                s.fault = packet_faults(2, (iv as i32 + 3).min(if t { 8 } else { 5 }), CLASS_INPUT | CLASS_INPUT_ACK | (1 << K_CHECKSUM), vec![Fate::Drop, Fate::Dup, Fate::Delay(3)], 1);
                scns.push(s);
            }
        }
        let k = 2;
        let n = scns.len();
        let cfg = ExploreCfg { k: Some(k), wall: Duration::from_secs(if t { 2400 } else { 40 }), ..Default::default() };
        let out = explore(&scns, &cfg, &judge);
        rep.absorb("false-alarm half: at most k deviations (drop/dup/delay+3 of Input, InputAck, ChecksumReport; peer stall)", out, &props, json!({"k": k, "configs": n}));
    }
    // ---- false alarms: outages (bursts make the confirmed frame jump)
    {
        let mut scns = Vec::new();
        let intervals: Vec<u32> = if t { (1..=12).collect() } else { vec![1, 3, 4, 7] };
        for &iv in &intervals {
            for (w, d, sparse) in [(2usize, 0usize, false), (8, 0, false), (8, 2, true), (3, 1, false)] {
                for len in 1..=(if t { 14 } else { 9 }) {
                    for start in [1, 4, 6] {
                        for dir in 0..3 {
                            if !t && (dir == 2 && len % 2 == 0) {
                                continue;
                            }
                            let mut s = base_scn("c09-false-outage", "1+1", w, d, sparse, Pred::RepeatLast, Program::Changing, 1);
                            for p in s.peers.iter_mut() {
                                p.desync = iv;
                            }
                            let (a, b) = (s.peers[0].addr, s.peers[1].addr);
                            if dir != 1 {
                                s.outages.push(Outage { from: b, to: a, start, len, classes: CLASS_ALL });
                            }
                            if dir != 0 {
                                s.outages.push(Outage { from: a, to: b, start, len, classes: CLASS_ALL });
                            }
                            s.name = format!("{} interval={iv} outage start={start} len={len} dir={dir}", s.name);
                            s.horizon = start + len + 2;
                            s.probe = 4 * iv as i32 + 30;
                            s.checks = CK_CORE;
                            scns.push(s);
                        }
                    }
                }
            }
        }
        let n = scns.len();
        let cfg = ExploreCfg { k: Some(0), wall: Duration::from_secs(if t { 900 } else { 40 }), ..Default::default() };
        let out = explore(&scns, &cfg, &judge);
        rep.absorb("false-alarm half: link outages of every length (the confirmed frame jumps across reporting frames when the burst arrives)", out, &props, json!({"k": 0, "scenarios": n}));
    }
    // ---- detection
    {
        let mut scns = Vec::new();
        let intervals: Vec<u32> = if t { (1..=12).collect() } else { vec![1, 3, 7, 12] };
        for &iv in &intervals {
            for (tp, w, d) in [("1+1", 2usize, 0usize), ("1+1", 8, 2), ("1+1+1", 3, 0)] {
                if !t && tp == "1+1+1" && iv != 3 {
                    continue;
                }
                let mut gs: Vec<i32> = if t { (0..40).collect() } else { (0..40).step_by(3).collect() };
                // around the pruning horizon of the 32-entry checksum history
                for x in [32 * iv as i32 - 1, 32 * iv as i32, 32 * iv as i32 + 1, 33 * iv as i32 + 2] {
                    if t || iv <= 3 {
                        gs.push(x);
                    }
                }
                for g in gs {
                    for dn in [0usize, 1] {
                        let mut s = base_scn("c09-detect", tp, w, d, false, Pred::RepeatLast, Program::Changing, 1);
                        for p in s.peers.iter_mut() {
                            p.desync = iv;
                        }
                        s.diverge = Some((dn, g));
                        s.name = format!("{} interval={iv} node {dn} diverges from frame {g}", s.name);
                        s.horizon = 4;
                        s.probe = g + 4 * iv as i32 + 2 * w as i32 + 40;
                        s.checks = CK_C02 | CK_C03 | CK_C04;
                        scns.push(s);
                    }
                }
            }
        }
        let n = scns.len();
        let cfg = ExploreCfg { k: Some(0), wall: Duration::from_secs(if t { 900 } else { 40 }), ..Default::default() };
        let out = explore(&scns, &cfg, &judge);
        rep.absorb("detection half: one peer's game diverges from frame g on, every g in 0..40 and around 32*interval", out, &props, json!({"k": 0, "scenarios": n}));
        // divergence right after a one-way loss burst (the confirmed frame jumps over several
        // reporting frames in one call when the burst ends)
        let mut scns = Vec::new();
        // the burst starts at round 20, or at the very start of the session (rounds 0..2): then
        // the first report of one side is due only after its confirmed frame has jumped
        for start in [20, 0, 1, 2] {
            for iv in [1u32, 2, 3, 4] {
                for len in [3, 5, 8, 12] {
                    for off in -2..=(if t { 8 } else { 5 }) {
                        for dir in 0..2 {
                            for w in [8usize, 3] {
                                if !t && (w == 3 && len > 5 || off % 2 != 0 && iv >= 3) {
                                    continue;
                                }
                                if start != 20 && !t && off > 2 {
                                    continue;
                                }
                                if iv == 4 && start == 20 && !t {
                                    continue;
                                }
                                let mut s = base_scn("c09-detect-after-burst", "1+1", w, 0, false, Pred::RepeatLast, Program::Changing, 1);
                                for p in s.peers.iter_mut() {
                                    p.desync = iv;
                                }
                                let (a, b) = (s.peers[0].addr, s.peers[1].addr);
                                let (from, to) = if dir == 0 { (b, a) } else { (a, b) };
                                s.outages.push(Outage { from, to, start, len, classes: CLASS_ALL });
                                // right after the burst, or (bursts at the start) a good while later
                                let g = if start != 20 && off > 0 { 40 + off } else { (start + len + off).max(0) };
                                s.diverge = Some((1, g));
                                s.name = format!("{} interval={iv} burst start={start} len={len} dir={dir} node 1 diverges from frame {g}", s.name);
                                s.horizon = start + len + 2;
                                s.probe = g + 4 * iv as i32 + 2 * w as i32 + 60;
                                s.checks = CK_C02 | CK_C03 | CK_C04;
                                scns.push(s);
                            }
                        }
                    }
                }
            }
        }
        let n = scns.len();
        let cfg = ExploreCfg { k: Some(0), wall: Duration::from_secs(if t { 900 } else { 40 }), ..Default::default() };
        let out = explore(&scns, &cfg, &judge);
        rep.absorb("detection half: divergence right after (or well after) a one-way loss burst in the middle or at the very start of the session, intervals 1..4", out, &props, json!({"k": 0, "scenarios": n}));
        // with one deviation
        let mut scns = Vec::new();
        for iv in [1u32, 4] {
            for g in [2, 7] {
                let mut s = base_scn("c09-detect-D", "1+1", 2, 0, false, Pred::RepeatLast, Program::Changing, 1);
                for p in s.peers.iter_mut() {
                    p.desync = iv;
                }
                s.diverge = Some((1, g));
                s.name = format!("{} interval={iv} node 1 diverges from frame {g}", s.name);
                s.horizon = g + 2 * iv as i32 + 4;
                s.probe = 4 * iv as i32 + 50;
                s.checks = CK_C02 | CK_C03 | CK_C04;
                s.fault = packet_faults(g - 1, 2 * iv as i32 + 3, CLASS_INPUT | (1 << K_CHECKSUM), vec![Fate::Drop, Fate::Delay(3)], 0);
                scns.push(s);
            }
        }
        let cfg = ExploreCfg { k: Some(if t { 2 } else { 1 }), wall: Duration::from_secs(if t { 600 } else { 30 }), ..Default::default() };
        let out = explore(&scns, &cfg, &judge);
        rep.absorb("detection half with k further deviations on Input/ChecksumReport packets", out, &props, json!({"k": cfg.k, "configs": scns.len()}));
    }
    // ---- both halves over the configuration space the grids above fix: four peers, two local
    // players, spectators, latencies 0..3, a slow peer, PredictDefault, other input programs
    {
        let mut scns = Vec::new();
        // (topology, window, delay, sparse, latency, spectators, slow peer, predictor, program)
        let cfgs: Vec<(&str, usize, usize, bool, i32, usize, bool, Pred, Program)> = vec![
            ("1+1+1+1", 8, 0, false, 1, 0, false, Pred::RepeatLast, Program::Changing),
            ("2+1", 3, 1, false, 2, 1, false, Pred::Default, Program::Runs),
            ("1+2", 8, 2, true, 0, 0, true, Pred::RepeatLast, Program::Sparse),
            ("1+1", 2, 0, false, 3, 2, false, Pred::RepeatLast, Program::Changing),
            ("1+1+1", 4, 3, false, 2, 1, true, Pred::Default, Program::Changing),
            ("2+2", 12, 0, true, 1, 0, false, Pred::RepeatLast, Program::Runs),
            ("1+1", 1, 1, false, 0, 0, true, Pred::RepeatLast, Program::Constant),
        ];
        for (ci, (tp, w, d, sparse, lat, nspec, slow, pred, prog)) in cfgs.into_iter().enumerate() {
            if !t && ci >= 5 {
                continue;
            }
            for iv in [1u32, 3, 8] {
                if !t && iv == 8 {
                    continue;
                }
                let mut base = base_scn("c09-cfg", tp, w, d, sparse, pred, prog, lat);
                for p in base.peers.iter_mut() {
                    p.desync = iv;
                }
                for k in 0..nspec {
                    base.specs.push(SpecSpec::new(20 + k as u8, base.peers[0].addr));
                }
                if slow {
                    base.peers.last_mut().unwrap().tick_every = 2;
                }
                base.name = format!("{} interval={iv} spectators={nspec} slow-last-peer={slow}", base.name);
                let (a, b) = (base.peers[0].addr, base.peers[1].addr);
                // false-alarm half: no fault, and bursts in each direction
                for (len, dir) in [(0, 0), (3, 0), (7, 1), (12, 2), (5, 2)] {
                    let mut s = base.clone();
                    if len > 0 {
                        if dir != 1 {
                            s.outages.push(Outage { from: b, to: a, start: 4, len, classes: CLASS_ALL });
                        }
                        if dir != 0 {
                            s.outages.push(Outage { from: a, to: b, start: 4, len, classes: CLASS_ALL });
                        }
                    }
                    s.name = format!("{} outage len={len} dir={dir}", s.name);
                    s.horizon = 4 + len + 2;
                    s.probe = 4 * iv as i32 + 40;
                    s.checks = CK_CORE;
                    scns.push(s);
                }
                // detection half (the statement excludes sparse saving)
                let last = base.peers.len() - 1;
                for g in [1, 6, 13, 22] {
                    if sparse {
                        break;
                    }
                    for dn in [0usize, last] {
                        if !t && g == 13 && dn == 0 {
                            continue;
                        }
                        let mut s = base.clone();
                        s.diverge = Some((dn, g));
                        s.name = format!("{} node {dn} diverges from frame {g}", s.name);
                        s.horizon = 4;
                        s.probe = (if slow { 2 } else { 1 }) * (g + 4 * iv as i32 + 2 * w as i32 + 2 * lat + d as i32 + 40);
                        s.checks = CK_C02 | CK_C03 | CK_C04;
                        scns.push(s);
                    }
                }
            }
        }
        let n = scns.len();
        let cfg = ExploreCfg { k: Some(0), wall: Duration::from_secs(if t { 900 } else { 40 }), ..Default::default() };
        let out = explore(&scns, &cfg, &judge);
        rep.absorb("both halves over seven further configurations (four peers, two local players per peer, spectators, latencies 0..3, a peer ticking at half rate, PredictDefault, all input programs)", out, &props, json!({"k": 0, "scenarios": n}));
    }
    // ---- detection with applications that look at their events only at the end, after more
    // than a hundred other events have piled up (a flaky link: NetworkInterrupted / NetworkResumed)
    {
        let mut scns = Vec::new();
        for (tp, iv, cycles) in [("1+1", 1u32, 60), ("1+1", 4, 55), ("1+1+1", 2, 60)] {
            let mut s = base_scn("c09-detect-undrained", tp, 8, 0, false, Pred::RepeatLast, Program::Changing, 1);
            for p in s.peers.iter_mut() {
                p.desync = iv;
                p.drain = false;
                p.notify_ms = 50;
                p.timeout_ms = 5000;
            }
            let (a, b) = (s.peers[0].addr, s.peers[1].addr);
            for c in 0..cycles {
                s.outages.push(Outage { from: b, to: a, start: 5 + c * 12, len: 6, classes: CLASS_ALL });
                s.outages.push(Outage { from: a, to: b, start: 5 + c * 12, len: 6, classes: CLASS_ALL });
            }
            let end = 5 + cycles * 12 + 10;
            // the divergence starts after the last outage, at a frame the sessions reach only then
            s.diverge = Some((1, end - 40));
            s.name = format!("{} interval={iv} {cycles} interruptions first, node 1 diverges from frame {}", s.name, end - 40);
            s.horizon = end;
            s.probe = 120;
            s.checks = CK_C02;
            scns.push(s);
        }
        let n = scns.len();
        let cfg = ExploreCfg { k: Some(0), wall: Duration::from_secs(60), ..Default::default() };
        let out = explore(&scns, &cfg, &judge);
        rep.absorb("detection half with applications that never drain events during the run and a queue already full of NetworkInterrupted/NetworkResumed", out, &props, json!({"k": 0, "scenarios": n}));
    }
    // ---- detection after the network has re-delivered a long series of very old checksum
    // reports (frames that left the 32-entry history long ago)
    {
        let mut scns = Vec::new();
        for (iv, w) in [(1u32, 8usize), (2, 3)] {
            for both in [false, true] {
                let mut s = base_scn("c09-detect-after-old-reports", "1+1", w, 0, false, Pred::RepeatLast, Program::Changing, 1);
                for p in s.peers.iter_mut() {
                    p.desync = iv;
                }
                let (a, b) = (s.peers[0].addr, s.peers[1].addr);
                let n_old = 90;
                let arrive = 10 + n_old + 34 * iv as i32 + 10;
                for r in 10..10 + n_old {
                    // eight old reports per round, from `arrive` on
                    let at = arrive + (r - 10) / 8;
                    s.scripted.push(ScriptedFate { from: b, to: a, round: r, classes: 1 << K_CHECKSUM, fate: Fate::DupLate(at - r) });
                    if both {
                        s.scripted.push(ScriptedFate { from: a, to: b, round: r, classes: 1 << K_CHECKSUM, fate: Fate::DupLate(at - r) });
                    }
                }
                let g = arrive + n_old / 8 + 12;
                s.diverge = Some((1, g));
                s.name = format!("{} interval={iv} both-directions={both} {n_old} old reports re-delivered from round {arrive}, node 1 diverges from frame {g}", s.name);
                s.horizon = g + 2;
                s.probe = 4 * iv as i32 + 2 * w as i32 + 60;
                s.checks = CK_C02;
                scns.push(s);
            }
        }
        let n = scns.len();
        let cfg = ExploreCfg { k: Some(0), wall: Duration::from_secs(60), ..Default::default() };
        let out = explore(&scns, &cfg, &judge);
        rep.absorb("detection half after 90 checksum reports that are more than 32 intervals old have been delivered a second time", out, &props, json!({"k": 0, "scenarios": n}));
    }
    let det = DETECTED.load(std::sync::atomic::Ordering::Relaxed);
    let nr = NOT_REACHED.load(std::sync::atomic::Ordering::Relaxed);
    rep.coverage.insert("detections_observed_and_checked".into(), json!(det));
    rep.coverage.insert("session_pairs_that_never_reached_the_deadline_frame".into(), json!(nr));
    if det == 0 || nr > det / 10 {
        rep.machinery.push(format!("vacuous detection half: {det} detections checked, {nr} session pairs never reached the deadline frame"));
    }
    rep.finish()
}
