//! Counting global allocator: per-thread live/peak bytes, and (while armed) refusal of single
//! requests above a ceiling so that a runaway allocation aborts the child process
//! deterministically instead of thrashing the machine.
use std::alloc::{GlobalAlloc, Layout, System};
use std::cell::Cell;

thread_local! {
    static CUR: Cell<usize> = const { Cell::new(0) };
    static PEAK: Cell<usize> = const { Cell::new(0) };
    static CEILING: Cell<usize> = const { Cell::new(usize::MAX) };
}

pub struct Counting;

unsafe impl GlobalAlloc for Counting {
    unsafe fn alloc(&self, l: Layout) -> *mut u8 {
        let ceiling = CEILING.try_with(Cell::get).unwrap_or(usize::MAX);
        if l.size() > ceiling {
            return std::ptr::null_mut();
        }
        let p = System.alloc(l);
        if !p.is_null() {
            let _ = CUR.try_with(|c| {
                let v = c.get() + l.size();
                c.set(v);
                let _ = PEAK.try_with(|pk| {
                    if v > pk.get() {
                        pk.set(v)
                    }
                });
            });
        }
        p
    }
    unsafe fn alloc_zeroed(&self, l: Layout) -> *mut u8 {
        let ceiling = CEILING.try_with(Cell::get).unwrap_or(usize::MAX);
        if l.size() > ceiling {
            return std::ptr::null_mut();
        }
        let p = System.alloc_zeroed(l);
        if !p.is_null() {
            let _ = CUR.try_with(|c| {
                let v = c.get() + l.size();
                c.set(v);
                let _ = PEAK.try_with(|pk| {
                    if v > pk.get() {
                        pk.set(v)
                    }
                });
            });
        }
        p
    }
    unsafe fn dealloc(&self, p: *mut u8, l: Layout) {
        System.dealloc(p, l);
        let _ = CUR.try_with(|c| c.set(c.get().saturating_sub(l.size())));
    }
    unsafe fn realloc(&self, p: *mut u8, l: Layout, new: usize) -> *mut u8 {
        let ceiling = CEILING.try_with(Cell::get).unwrap_or(usize::MAX);
        if new > ceiling {
            return std::ptr::null_mut();
        }
        let q = System.realloc(p, l, new);
        if !q.is_null() {
            let _ = CUR.try_with(|c| {
                let v = c.get().saturating_sub(l.size()) + new;
                c.set(v);
                let _ = PEAK.try_with(|pk| {
                    if v > pk.get() {
                        pk.set(v)
                    }
                });
            });
        }
        q
    }
}

/// Starts a measurement: peak := current. Returns the baseline.
pub fn begin(ceiling: usize) -> usize {
    let cur = CUR.with(Cell::get);
    PEAK.with(|p| p.set(cur));
    CEILING.with(|c| c.set(ceiling));
    cur
}

/// Ends a measurement: bytes by which the peak exceeded the baseline.
pub fn end(baseline: usize) -> usize {
    CEILING.with(|c| c.set(usize::MAX));
    PEAK.with(Cell::get).saturating_sub(baseline)
}
