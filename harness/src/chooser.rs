//! The single interface through which the world asks for every non-deterministic decision.
//! Choice 0 is always the benign default. An execution is identified by its sparse list of
//! non-default choices ("deviations"): (index of the choice point, alternative taken).
use serde::{Deserialize, Serialize};

pub const PK_PACKET: u8 = 0;
pub const PK_TICK: u8 = 1;
pub const PK_SCRIPT: u8 = 2;
pub const PK_SPEC: u8 = 3;
pub const PK_LINK: u8 = 4;

#[derive(Clone, Copy, Debug, Serialize, Deserialize, PartialEq, Eq)]
pub struct Point {
    pub kind: u8,
    pub n: u8,
    pub round: i32,
    /// free-form tag: packet kind | (from << 8) | (to << 16) for packets, session index for ticks
    pub tag: u32,
}

pub type Devs = Vec<(u32, u8)>;

pub struct Chooser {
    devs: Devs,
    next_dev: usize,
    pub points: Vec<Point>,
    /// a deviation whose point did not offer that alternative, or was never reached
    pub divergence: Option<String>,
    /// when false no choice point is offered at all (benign prefix, recovery probe)
    pub enabled: bool,
    pub max_points: u32,
}

impl Chooser {
    pub fn new(devs: Devs, max_points: u32) -> Self {
        Self {
            devs,
            next_dev: 0,
            points: Vec::new(),
            divergence: None,
            enabled: true,
            max_points,
        }
    }

    pub fn offering(&self) -> bool {
        self.enabled && (self.points.len() as u32) < self.max_points
    }

    pub fn choose(&mut self, kind: u8, n: usize, round: i32, tag: u32) -> usize {
        if !self.offering() || n <= 1 {
            return 0;
        }
        let idx = self.points.len() as u32;
        self.points.push(Point {
            kind,
            n: n as u8,
            round,
            tag,
        });
        if let Some(&(i, alt)) = self.devs.get(self.next_dev) {
            if i == idx {
                self.next_dev += 1;
                if (alt as usize) >= n {
                    self.divergence = Some(format!(
                        "deviation ({i},{alt}) out of range at a point with {n} options"
                    ));
                    return 0;
                }
                return alt as usize;
            }
        }
        0
    }

    pub fn finish(&mut self) {
        if self.next_dev < self.devs.len() && self.divergence.is_none() {
            self.divergence = Some(format!(
                "deviation {:?} was never reached ({} points offered)",
                self.devs[self.next_dev],
                self.points.len()
            ));
        }
    }
}
