//! The closed system: real ggrs sessions, the simulated network, the game and the monitor.
//! `run` executes one scenario under one deviation list and returns everything observed.
use crate::chooser::{Chooser, Devs, Point, PK_TICK};
use crate::net::{SimNet, SimSocket};
use crate::scenario::*;
use crate::types::*;
use ggrs::{
    DesyncDetection, GgrsError, GgrsEvent, GgrsRequest, InputStatus, P2PSession, PlayerType,
    SessionBuilder, SessionState, SpectatorSession,
};
use std::cell::RefCell;
use std::collections::HashSet;
use std::panic::{catch_unwind, AssertUnwindSafe};
use std::rc::Rc;
use std::sync::Mutex;
use std::time::Duration;

#[derive(Clone, Debug, serde::Serialize)]
pub struct Violation {
    pub prop: &'static str,
    pub kind: String,
    pub detail: String,
    pub round: i32,
    pub node: usize,
}

#[derive(Clone, Debug, PartialEq, Eq, serde::Serialize)]
pub enum Ev {
    Synchronizing { addr: Addr, total: u32, count: u32 },
    Synchronized { addr: Addr },
    Disconnected { addr: Addr },
    Interrupted { addr: Addr, ms: u128 },
    Resumed { addr: Addr },
    Wait { skip: u32 },
    Desync { frame: i32, local: u128, remote: u128, addr: Addr },
}

impl Ev {
    pub fn addr(&self) -> Option<Addr> {
        match self {
            Ev::Synchronizing { addr, .. }
            | Ev::Synchronized { addr }
            | Ev::Disconnected { addr }
            | Ev::Interrupted { addr, .. }
            | Ev::Resumed { addr }
            | Ev::Desync { addr, .. } => Some(*addr),
            Ev::Wait { .. } => None,
        }
    }
}

fn ev_of<C: HCfg>(e: GgrsEvent<C>) -> Ev {
    match e {
        GgrsEvent::Synchronizing { addr, total, count } => Ev::Synchronizing { addr, total, count },
        GgrsEvent::Synchronized { addr } => Ev::Synchronized { addr },
        GgrsEvent::Disconnected { addr } => Ev::Disconnected { addr },
        GgrsEvent::NetworkInterrupted {
            addr,
            disconnect_timeout,
        } => Ev::Interrupted {
            addr,
            ms: disconnect_timeout,
        },
        GgrsEvent::NetworkResumed { addr } => Ev::Resumed { addr },
        GgrsEvent::WaitRecommendation { skip_frames } => Ev::Wait { skip: skip_frames },
        GgrsEvent::DesyncDetected {
            frame,
            local_checksum,
            remote_checksum,
            addr,
        } => Ev::Desync {
            frame,
            local: local_checksum,
            remote: remote_checksum,
            addr,
        },
    }
}

pub const R_OK: u8 = 0;
pub const R_NOT_SYNC: u8 = 1;
pub const R_INVALID: u8 = 2;
pub const R_PRED_THRESHOLD: u8 = 3;
pub const R_TOO_FAR_BEHIND: u8 = 4;
pub const R_MISMATCH: u8 = 5;
pub const R_NOT_ENOUGH_DATA: u8 = 6;
pub const R_PANIC: u8 = 9;
pub const R_STALLED: u8 = 10;
pub const R_POLL_ONLY: u8 = 11;
pub const R_NO_TICK: u8 = 12;
pub const R_DEAD: u8 = 13;

pub fn err_code(e: &GgrsError) -> u8 {
    match e {
        GgrsError::PredictionThreshold => R_PRED_THRESHOLD,
        GgrsError::InvalidRequest { .. } => R_INVALID,
        GgrsError::MismatchedChecksum { .. } => R_MISMATCH,
        GgrsError::NotSynchronized => R_NOT_SYNC,
        GgrsError::SpectatorTooFarBehind => R_TOO_FAR_BEHIND,
        GgrsError::NotEnoughData => R_NOT_ENOUGH_DATA,
    }
}

#[derive(Clone, Debug, serde::Serialize)]
pub struct CallRec {
    pub round: i32,
    pub t_us: u64,
    pub res: u8,
    pub n_adv: u8,
    pub n_save: u8,
    pub n_load: u8,
    /// current_frame() after the call (spectators: frames handed out so far)
    pub cur: i32,
    pub conf: i32,
    pub ahead: i32,
    /// spectators: frames_behind_host() before the call's own poll (after an explicit poll)
    pub behind: i32,
    pub running: bool,
    /// current_frame() before the call
    pub cur_before: i32,
    /// network_stats() of the first remote player after the call (when CK_STATS is on):
    /// result code, ping, local_frames_behind, remote_frames_behind
    pub stats: (u8, i64, i32, i32),
}

#[derive(Clone, Debug, Default, serde::Serialize)]
pub struct FrameRec {
    pub vals: Vec<u8>,
    pub stats: Vec<u8>,
    pub hash_after: u64,
    pub count: u32,
}

#[derive(Clone, Debug, serde::Serialize)]
pub struct ActionRec {
    pub round: i32,
    pub action: Action,
    pub res: u8,
    pub detail: String,
    /// connection status right after the call
    pub conn_after: Vec<(bool, i32)>,
    /// newest frame of every peer delivered to this node by the time of the call
    pub delivered_at_call: Vec<(Addr, i32)>,
    pub cur_before: i32,
}

#[derive(Clone, Debug, Default, serde::Serialize)]
pub struct NodeStats {
    pub rollbacks: u64,
    pub max_rollback: i32,
    pub resimulated: u64,
    pub stalls: u64,
    pub saves: u64,
    pub predicted: u64,
    pub mispredicted_resims: u64,
    pub disconnected_inputs: u64,
}

#[derive(Clone, Debug, serde::Serialize)]
pub struct NodeTrace {
    pub is_spec: bool,
    pub addr: Addr,
    pub calls: Vec<CallRec>,
    pub events: Vec<(i32, u64, Ev)>,
    pub sims: Vec<FrameRec>,
    pub actions: Vec<ActionRec>,
    pub crashed: Option<String>,
    pub died_at: Option<i32>,
    pub stats: NodeStats,
    pub max_sizes: Vec<usize>,
    /// (round, sizes...) sampled each round when size tracking is on
    pub size_series: Vec<Vec<u32>>,
    pub conn: Vec<(bool, i32)>,
    /// connection status when the first Disconnected event was drained
    pub conn_at_disc: Vec<(bool, i32)>,
    /// buffer sizes at the end of the run (same layout as max_sizes)
    pub final_sizes: Vec<usize>,
    /// iteration orders of the registry maps right after the session was built
    pub iter_orders: Vec<Vec<String>>,
    /// largest peak of live heap bytes above the level at call entry, over all API calls
    pub peak_alloc: usize,
}

pub struct ExecResult {
    pub nodes: Vec<NodeTrace>,
    pub violations: Vec<Violation>,
    pub points: Vec<Point>,
    pub divergence: Option<String>,
    pub fingerprint: u64,
    pub net: crate::net::NetStats,
    pub sync_rounds: i32,
    /// S-mode: index of the first point that belongs to an already visited state
    pub cut: Option<u32>,
    pub rounds_run: i32,
    pub new_states: u64,
    pub sniff: Vec<(i32, Addr, Addr, crate::wire::WMessage)>,
    pub last_recv_us: std::collections::HashMap<(Addr, Addr), u64>,
    pub delivered_frames: std::collections::HashMap<(Addr, Addr), i32>,
    pub recv_log: Vec<(Addr, Addr, u64)>,
    pub matched_log: Vec<(Addr, Addr, u32, u64)>,
    pub base_us: u64,
}

pub struct Visited {
    pub set: Mutex<HashSet<(i32, u64, u64)>>,
}

impl Visited {
    pub fn new() -> Self {
        Self {
            set: Mutex::new(HashSet::new()),
        }
    }
    pub fn len(&self) -> usize {
        self.set.lock().unwrap().len()
    }
}

#[derive(Default)]
pub struct RunOpt<'a> {
    pub visited: Option<&'a Visited>,
    pub sniff: bool,
    pub track_sizes: bool,
    /// called at the start of each relative round with (world access is via the net); used to
    /// inject forged packets
    pub injections: Vec<Injection>,
}

#[derive(Clone, Debug)]
pub struct Injection {
    pub round: i32,
    pub to: Addr,
    pub from: Addr,
    pub msg: ggrs::Message,
    pub before: bool,
}

enum Sess<C: HCfg> {
    P(P2PSession<C>),
    S(SpectatorSession<C>),
}

struct Node<C: HCfg> {
    /// frame of the previous tick's input submission (to recognise a re-submission after a stall)
    last_submit_frame: i32,
    sess: Sess<C>,
    game: GameSt,
    tr: NodeTrace,
    dead: bool,
    window: usize,
    // monitor state
    state_at: Vec<u64>,
    frozen: Vec<Option<Vec<u8>>>,
    c01_checked: i32,
    prev_conf: i32,
    resim: Vec<i32>,
    first_sims: Vec<i32>,
    diverge_from: Option<i32>,
    stats_handle: usize,
}

pub fn panic_msg(p: Box<dyn std::any::Any + Send>) -> String {
    if let Some(s) = p.downcast_ref::<&str>() {
        (*s).to_owned()
    } else if let Some(s) = p.downcast_ref::<String>() {
        s.clone()
    } else {
        "non-string panic payload".to_owned()
    }
}

fn build_p2p<C: HCfg>(
    scn: &Scenario,
    pi: usize,
    net: &Rc<RefCell<SimNet>>,
) -> Result<P2PSession<C>, GgrsError> {
    let p = &scn.peers[pi];
    let desync = if p.desync > 0 { DesyncDetection::On { interval: p.desync } } else { DesyncDetection::Off };
    let mut b = if p.builder_order == 0 {
        SessionBuilder::<C>::new()
            .with_num_players(scn.num_players)?
            .with_max_prediction_window(p.window)
            .with_input_delay(p.delay)
            .with_sparse_saving_mode(p.sparse)
            .with_fps(scn.fps)?
            .with_disconnect_timeout(Duration::from_millis(p.timeout_ms))
            .with_disconnect_notify_delay(Duration::from_millis(p.notify_ms))
            .with_desync_detection_mode(desync)
    } else {
        SessionBuilder::<C>::new()
            .with_desync_detection_mode(desync)
            .with_disconnect_notify_delay(Duration::from_millis(p.notify_ms))
            .with_disconnect_timeout(Duration::from_millis(p.timeout_ms))
            .with_fps(scn.fps)?
            .with_sparse_saving_mode(p.sparse)
            .with_input_delay(p.delay)
            .with_max_prediction_window(p.window)
            .with_num_players(scn.num_players)?
    };
    for h in 0..scn.num_players {
        let owner = scn.owner_of(h);
        let pt = if owner == pi {
            PlayerType::Local
        } else {
            PlayerType::Remote(scn.peers[owner].addr)
        };
        b = b.add_player(pt, h)?;
    }
    let mut k = 0;
    for s in &scn.specs {
        if s.host == p.addr {
            b = b.add_player(PlayerType::Spectator(s.addr), scn.num_players + k)?;
            k += 1;
        }
    }
    b.start_p2p_session(SimSocket {
        addr: p.addr,
        net: net.clone(),
    })
}

fn build_spec<C: HCfg>(
    scn: &Scenario,
    si: usize,
    net: &Rc<RefCell<SimNet>>,
) -> Result<SpectatorSession<C>, GgrsError> {
    let s = &scn.specs[si];
    Ok(SessionBuilder::<C>::new()
        .with_num_players(scn.num_players)?
        .with_max_prediction_window(s.window)
        .with_fps(scn.fps)?
        .with_disconnect_timeout(Duration::from_millis(s.timeout_ms))
        .with_disconnect_notify_delay(Duration::from_millis(s.notify_ms))
        .with_max_frames_behind(s.max_behind)?
        .with_catchup_speed(s.catchup)?
        .start_spectator_session(
            s.host,
            SimSocket {
                addr: s.addr,
                net: net.clone(),
            },
        ))
}

struct Ctx<'a> {
    scn: &'a Scenario,
    viol: Vec<Violation>,
    rel: i32,
    truth_states: Vec<GameSt>,
    /// per player: newest frame of that player the network has handed to the session being
    /// stepped (i32::MAX for its own players); refreshed before each request list is executed
    delivered: Vec<i32>,
}

impl<'a> Ctx<'a> {
    fn v(&mut self, prop: &'static str, kind: &str, node: usize, detail: String) {
        if self.viol.len() < 16 {
            self.viol.push(Violation {
                prop,
                kind: kind.to_owned(),
                detail,
                round: self.rel,
                node,
            });
        }
    }

    /// state after serially replaying the truth up to (not including) frame f
    fn truth_state(&mut self, f: i32) -> GameSt {
        while (self.truth_states.len() as i32) <= f {
            let st = *self.truth_states.last().unwrap();
            let inputs: Vec<(u8, bool)> = (0..self.scn.num_players)
                .map(|p| (self.scn.truth(p, st.frame), false))
                .collect();
            self.truth_states.push(game_step_vals(st, &inputs));
        }
        self.truth_states[f as usize]
    }
}

impl<C: HCfg> Node<C> {
    fn cur(&self) -> i32 {
        match &self.sess {
            Sess::P(s) => s.current_frame(),
            Sess::S(s) => s.current_frame() + 1,
        }
    }

    fn step_game(&mut self, inputs: &[(u8, InputStatus)]) {
        let mut st = game_step(self.game, inputs);
        if let Some(g) = self.diverge_from {
            if self.game.frame >= g {
                st.hash = mix(st.hash, 0xD1FF);
            }
        }
        self.game = st;
    }

    /// Executes a request list, checking the C02/C03/C04 contract on the way.
    fn exec(&mut self, ni: usize, reqs: Vec<GgrsRequest<C>>, cx: &mut Ctx, rec: &mut CallRec) {
        let ck = cx.scn.checks;
        let is_spec = self.tr.is_spec;
        let start = self.game.frame;
        let w = self.window as i32;
        let conn: Vec<(bool, i32)> = match &self.sess {
            Sess::P(s) => s.verif_connect_status(),
            Sess::S(_) => Vec::new(),
        };
        // the newest frame for which the session holds every connected player's input, computed
        // from the connection-status accessor (not from confirmed_frame(), which is itself under
        // test)
        let conf = match &self.sess {
            Sess::P(_) => conn.iter().filter(|c| !c.0).map(|c| c.1).min().unwrap_or(i32::MAX),
            Sess::S(_) => i32::MAX,
        };
        if let Sess::P(s) = &self.sess {
            let api = s.confirmed_frame();
            if ck & CK_C03 != 0 && api != conf {
                cx.v("C03", "confirmed-frame-api-wrong", ni, format!("confirmed_frame() = {api} but the smallest last-received frame over the connected players is {conf} (statuses {conn:?})"));
            }
        }
        let lockstep = w == 0 && !is_spec;
        self.resim.clear();
        self.first_sims.clear();
        for r in reqs {
            match r {
                GgrsRequest::SaveGameState { cell, frame } => {
                    rec.n_save = rec.n_save.saturating_add(1);
                    self.tr.stats.saves += 1;
                    if ck & CK_C02 != 0 && frame != self.game.frame {
                        cx.v(
                            "C02",
                            "save-wrong-frame",
                            ni,
                            format!("SaveGameState names frame {frame} but the game is at {}", self.game.frame),
                        );
                    }
                    if ck & CK_C04 != 0 && (lockstep || is_spec) {
                        cx.v("C04", "lockstep-save", ni, format!("SaveGameState{{{frame}}} in lockstep/spectator mode"));
                    }
                    let checksum = if cx.scn.no_checksum.contains(&ni) { None } else { Some(u128::from(self.game.hash)) };
                    cell.save(frame, Some(self.game), checksum);
                }
                GgrsRequest::LoadGameState { cell, frame } => {
                    rec.n_load = rec.n_load.saturating_add(1);
                    self.tr.stats.rollbacks += 1;
                    let depth = self.game.frame - frame;
                    self.tr.stats.max_rollback = self.tr.stats.max_rollback.max(depth);
                    if ck & CK_C04 != 0 && (lockstep || is_spec) {
                        cx.v("C04", "lockstep-load", ni, format!("LoadGameState{{{frame}}} in lockstep/spectator mode"));
                    }
                    if ck & CK_C04 != 0 && depth > w {
                        cx.v(
                            "C04",
                            "load-beyond-window",
                            ni,
                            format!("LoadGameState{{{frame}}} with the game at {} and window {w}", self.game.frame),
                        );
                    }
                    if ck & CK_C02 != 0 && frame >= self.game.frame {
                        cx.v(
                            "C02",
                            "load-not-earlier",
                            ni,
                            format!("LoadGameState{{{frame}}} with the game at {}", self.game.frame),
                        );
                    }
                    match cell.load() {
                        None => {
                            cx.v("C02", "load-empty-cell", ni, format!("LoadGameState{{{frame}}}: the cell holds no state"));
                        }
                        Some(st) => {
                            if ck & CK_C02 != 0 {
                                if st.frame != frame {
                                    cx.v(
                                        "C02",
                                        "load-cell-frame",
                                        ni,
                                        format!("LoadGameState{{{frame}}}: the cell holds the state of frame {}", st.frame),
                                    );
                                } else if frame >= 0
                                    && (frame as usize) < self.state_at.len()
                                    && self.state_at[frame as usize] != st.hash
                                {
                                    cx.v(
                                        "C02",
                                        "load-stale-cell",
                                        ni,
                                        format!(
                                            "LoadGameState{{{frame}}}: the cell holds a state saved on a superseded timeline (hash {:x}, current timeline {:x})",
                                            st.hash, self.state_at[frame as usize]
                                        ),
                                    );
                                }
                            }
                            self.game = st;
                        }
                    }
                }
                GgrsRequest::AdvanceFrame { inputs } => {
                    rec.n_adv = rec.n_adv.saturating_add(1);
                    let f = self.game.frame;
                    let inputs: Vec<(u8, InputStatus)> = inputs
                        .iter()
                        .enumerate()
                        .map(|(p, (i, s))| {
                            let (v, intact) = C::dec(i);
                            if !intact {
                                cx.v("C01", "input-corrupted", ni, format!("frame {f} player {p}: the game was handed the input {} ({s:?}), whose fields do not belong to one submitted value", C::show(i)));
                            }
                            (v, *s)
                        })
                        .collect();
                    if f < 0 {
                        cx.v("C02", "advance-negative", ni, format!("AdvanceFrame with the game at frame {f}"));
                        continue;
                    }
                    let first = (f as usize) >= self.tr.sims.len();
                    if inputs.len() != cx.scn.num_players {
                        cx.v(
                            "C02",
                            "advance-arity",
                            ni,
                            format!("AdvanceFrame for frame {f} carries {} inputs, expected {}", inputs.len(), cx.scn.num_players),
                        );
                    }
                    if first {
                        if (f as usize) > self.tr.sims.len() {
                            cx.v("C02", "advance-gap", ni, format!("first simulation of frame {f} but frame {} was never simulated", self.tr.sims.len()));
                            while self.tr.sims.len() < f as usize {
                                self.tr.sims.push(FrameRec::default());
                                self.state_at.push(0);
                                self.frozen.push(None);
                            }
                        }
                        self.first_sims.push(f);
                        if ck & CK_C04 != 0 && !is_spec && f > conf.saturating_add(w) {
                            cx.v(
                                "C04",
                                "speculation-beyond-window",
                                ni,
                                format!("first simulation of frame {f} while confirmed_frame() is {conf} and the window is {w}"),
                            );
                        }
                        if ck & CK_C02 != 0 && !is_spec && !lockstep && f == 0 && rec.n_save == 0 {
                            cx.v("C02", "frame0-unsaved", ni, "first simulation of frame 0 without a preceding SaveGameState{0}".to_owned());
                        }
                    } else {
                        self.resim.push(f);
                        self.tr.stats.resimulated += 1;
                    }
                    // C03: status truthfulness
                    if ck & CK_C03 != 0 && !is_spec && inputs.len() == cx.scn.num_players {
                        for (p, (v, s)) in inputs.iter().enumerate() {
                            let (disc, last) = conn[p];
                            let local = match &self.sess {
                                Sess::P(_) => cx.scn.owner_of(p) == ni,
                                Sess::S(_) => false,
                            };
                            let t = cx.scn.truth(p, f);
                            match s {
                                InputStatus::Confirmed => {
                                    // "had actually been received": also against what the
                                    // network really handed over, not only the session's books
                                    if let Some(&dl) = cx.delivered.get(p) {
                                        if f > dl {
                                            cx.v(
                                                "C03",
                                                "confirmed-never-received",
                                                ni,
                                                format!("frame {f} player {p}: handed out as Confirmed, but the newest frame of that player the network has handed over is {dl}"),
                                            );
                                        }
                                    }
                                    if *v != t || f > last {
                                        cx.v(
                                            "C03",
                                            "confirmed-untrue",
                                            ni,
                                            format!("frame {f} player {p}: Confirmed value {v}, real input {t}, last received frame {last}"),
                                        );
                                    }
                                }
                                InputStatus::Predicted => {
                                    self.tr.stats.predicted += 1;
                                    let expect = if last < 0 || f == 0 {
                                        0
                                    } else {
                                        C::PRED.predict(cx.scn.truth(p, last))
                                    };
                                    if local || f <= last || *v != expect || disc {
                                        cx.v(
                                            "C03",
                                            "predicted-untrue",
                                            ni,
                                            format!("frame {f} player {p}: Predicted value {v}, expected predictor(real input of frame {last}) = {expect}, local={local}, disconnected={disc}"),
                                        );
                                    }
                                }
                                InputStatus::Disconnected => {
                                    self.tr.stats.disconnected_inputs += 1;
                                    if *v != 0 || !disc || last >= f || local {
                                        cx.v(
                                            "C03",
                                            "disconnected-untrue",
                                            ni,
                                            format!("frame {f} player {p}: Disconnected value {v}, disconnected flag {disc}, last received frame {last}, local={local}"),
                                        );
                                    }
                                }
                            }
                        }
                    }
                    // C03 for spectators: what is handed out as Confirmed is the real input,
                    // Disconnected comes with the default input, nothing is ever Predicted
                    if ck & CK_C03 != 0 && is_spec && inputs.len() == cx.scn.num_players {
                        for (p, (v, s)) in inputs.iter().enumerate() {
                            let t = cx.scn.truth(p, f);
                            let bad = match s {
                                InputStatus::Confirmed => *v != t,
                                InputStatus::Disconnected => *v != 0,
                                InputStatus::Predicted => true,
                            };
                            if bad {
                                cx.v("C03", "spectator-input-untrue", ni, format!("spectator frame {f} player {p}: handed ({v}, {s:?}), the real input is {t}"));
                            }
                        }
                    }
                    if ck & CK_C04 != 0 && lockstep {
                        for (p, (_, s)) in inputs.iter().enumerate() {
                            if *s == InputStatus::Predicted {
                                cx.v("C04", "lockstep-predicted", ni, format!("frame {f} player {p}: Predicted input in lockstep mode"));
                            }
                        }
                    }
                    let vals: Vec<u8> = inputs.iter().map(|x| x.0).collect();
                    let stats: Vec<u8> = inputs.iter().map(|x| status_code(x.1)).collect();
                    // C03 finality
                    if ck & CK_FINALITY != 0 && !first {
                        if let Some(fz) = &self.frozen[f as usize] {
                            if *fz != vals {
                                cx.v(
                                    "C03",
                                    "confirmed-not-final",
                                    ni,
                                    format!("frame {f} was at or below confirmed_frame() with inputs {fz:?} and is now re-simulated with {vals:?}"),
                                );
                            }
                        }
                        if self.tr.sims[f as usize].vals != vals {
                            self.tr.stats.mispredicted_resims += 1;
                        }
                    }
                    self.step_game(&inputs);
                    let rec_f = FrameRec {
                        vals,
                        stats,
                        hash_after: self.game.hash,
                        count: if first { 1 } else { self.tr.sims[f as usize].count + 1 },
                    };
                    if first {
                        self.tr.sims.push(rec_f);
                        self.frozen.push(None);
                        self.state_at.push(self.game.hash);
                    } else {
                        self.tr.sims[f as usize] = rec_f;
                        self.state_at[f as usize + 1] = self.game.hash;
                    }
                }
            }
        }
        // after the list
        let cur = self.cur();
        if ck & CK_C02 != 0 {
            if self.game.frame != cur {
                cx.v(
                    "C02",
                    "frame-mismatch-after-call",
                    ni,
                    format!("after the request list the game is at frame {} but current_frame() says {cur}", self.game.frame),
                );
            }
            let delta = self.game.frame - start;
            if !is_spec && !(0..=1).contains(&delta) {
                cx.v("C02", "delta", ni, format!("the call moved the game from frame {start} to {}", self.game.frame));
            }
        }
        if rec.n_adv == 0 {
            self.tr.stats.stalls += 1;
            if ck & CK_C04 != 0 && !is_spec && cur != start {
                cx.v("C04", "stall-moved-frame", ni, format!("a call without AdvanceFrame moved current_frame() from {start} to {cur}"));
            }
        }
    }

    /// Checks that need confirmed_frame() after the call (C01 timeline, C03 finality/monotonic).
    fn post_call(&mut self, ni: usize, cx: &mut Ctx) {
        let ck = cx.scn.checks;
        let Sess::P(s) = &self.sess else { return };
        let api_conf = s.confirmed_frame();
        let cur = s.current_frame();
        if ck & CK_FINALITY != 0 && api_conf < self.prev_conf {
            cx.v("C03", "confirmed-frame-decreased", ni, format!("confirmed_frame() went from {} to {api_conf}", self.prev_conf));
        }
        self.prev_conf = self.prev_conf.max(api_conf);
        // "frames whose inputs from all connected players have reached the peer": from the
        // connection-status accessor, independent of confirmed_frame()
        let conf = s.verif_connect_status().iter().filter(|c| !c.0).map(|c| c.1).min().unwrap_or(api_conf).max(api_conf.min(cur - 1));
        let upto = conf.min(cur - 1).min(self.tr.sims.len() as i32 - 1);
        if ck & (CK_C01 | CK_FINALITY) != 0 {
            let mut to_check: Vec<i32> = self.resim.iter().copied().filter(|f| *f <= upto).collect();
            let mut f = self.c01_checked + 1;
            while f <= upto {
                to_check.push(f);
                f += 1;
            }
            self.c01_checked = self.c01_checked.max(upto);
            for f in to_check {
                let fr = &self.tr.sims[f as usize];
                if self.frozen[f as usize].is_none() {
                    self.frozen[f as usize] = Some(fr.vals.clone());
                }
                if ck & CK_C01 != 0 {
                    let truth: Vec<u8> = (0..cx.scn.num_players).map(|p| cx.scn.truth(p, f)).collect();
                    if fr.vals != truth {
                        cx.v(
                            "C01",
                            "confirmed-timeline-wrong-input",
                            ni,
                            format!("frame {f} (confirmed_frame {conf}): last simulation used {:?}, the players really submitted {truth:?}", fr.vals),
                        );
                    } else {
                        let exp = cx.truth_state(f + 1).hash;
                        if fr.hash_after != exp {
                            cx.v(
                                "C01",
                                "confirmed-state-differs-from-serial-replay",
                                ni,
                                format!("state after frame {f}: {:x}, serial replay of the true inputs: {exp:x}", fr.hash_after),
                            );
                        }
                    }
                }
            }
        }
    }
}

fn record_sizes<C: HCfg>(n: &mut Node<C>, track_series: bool) {
    let b = match &n.sess {
        Sess::P(s) => s.verif_buffer_sizes(),
        Sess::S(s) => s.verif_buffer_sizes(),
    };
    let mut v: Vec<u32> = vec![
        b.event_queue as u32,
        b.outgoing_local_inputs as u32,
        b.local_checksum_history as u32,
        b.pending_local_inputs as u32,
    ];
    for e in &b.endpoints {
        v.push(e.pending_output as u32);
        v.push(e.recv_inputs as u32);
        v.push(e.pending_checksums as u32);
        v.push(e.send_queue as u32);
        v.push(e.event_queue as u32);
        v.push(e.sync_random_requests as u32);
    }
    n.tr.final_sizes = v.iter().map(|x| *x as usize).collect();
    if n.tr.max_sizes.len() < v.len() {
        n.tr.max_sizes.resize(v.len(), 0);
    }
    for (i, x) in v.iter().enumerate() {
        n.tr.max_sizes[i] = n.tr.max_sizes[i].max(*x as usize);
    }
    if track_series {
        n.tr.size_series.push(v);
    }
}

pub fn run<C: HCfg>(scn: &Scenario, devs: &Devs, opt: &RunOpt) -> ExecResult {
    ggrs::verif_hooks::reset(1_000_000, scn.rng_seed, scn.hash_seed);
    ggrs::verif_hooks::set_wait_quantum_us((scn.round_us / 8).max(1));
    crate::net::WAIT_EARLY.with(|c| c.set(0));
    crate::net::WAIT_YIELDS_THIS_CALL.with(|c| c.set(0));
    ggrs::verif_hooks::set_wait_callback(Some(Box::new(|| {
        let n = crate::net::WAIT_YIELDS_THIS_CALL.with(|c| {
            c.set(c.get() + 1);
            c.get()
        });
        if n >= 4 {
            crate::net::WAIT_EARLY.with(|c| c.set(1));
        }
    })));
    let chooser = Chooser::new(devs.clone(), scn.max_points);
    let net = Rc::new(RefCell::new(SimNet::new(scn.latency, chooser)));
    {
        let mut n = net.borrow_mut();
        n.fault = scn.fault.clone();
        n.outages = scn.outages.clone();
        n.scripted = scn.scripted.clone();
        n.chooser.enabled = false;
        n.base = if scn.handshake_phase { 0 } else { i32::MAX / 2 };
        n.bg_loss_every = scn.background.loss_every;
        n.bg_delay_every = scn.background.delay_every;
        n.bg_until = scn.horizon;
        for (f, t, l) in &scn.link_lat {
            n.link_latency.insert((*f, *t), *l);
        }
        n.track_frames = scn.has_disconnects() || !scn.specs.is_empty() || scn.checks & CK_C03 != 0;
        if opt.sniff {
            n.sniff = Some(Vec::new());
        }
    }
    let mut cx = Ctx {
        scn,
        viol: Vec::new(),
        rel: 0,
        truth_states: vec![GameSt {
            frame: 0,
            hash: INITIAL_HASH,
        }],
        delivered: Vec::new(),
    };
    let mut nodes: Vec<Node<C>> = Vec::new();
    let mut build_err: Option<String> = None;
    for pi in 0..scn.peers.len() {
        match catch_unwind(AssertUnwindSafe(|| build_p2p::<C>(scn, pi, &net))) {
            Ok(Ok(s)) => nodes.push(new_node(Sess::P(s), scn.peers[pi].addr, false, scn.peers[pi].window, scn, nodes.len())),
            Ok(Err(e)) => build_err = Some(format!("builder rejected peer {pi}: {e}")),
            Err(p) => build_err = Some(format!("builder panicked for peer {pi}: {}", panic_msg(p))),
        }
    }
    for si in 0..scn.specs.len() {
        match catch_unwind(AssertUnwindSafe(|| build_spec::<C>(scn, si, &net))) {
            Ok(Ok(s)) => nodes.push(new_node(Sess::S(s), scn.specs[si].addr, true, 0, scn, nodes.len())),
            Ok(Err(e)) => build_err = Some(format!("builder rejected spectator {si}: {e}")),
            Err(p) => build_err = Some(format!("builder panicked for spectator {si}: {}", panic_msg(p))),
        }
    }
    if let Some(e) = build_err {
        cx.v("MACHINERY", "build", 0, e);
        return finish(nodes, cx, &net, 0, None, 0, 0, 1_000_000);
    }

    for n in nodes.iter_mut() {
        if let Sess::P(s) = &n.sess {
            n.tr.iter_orders = s.verif_iteration_orders();
        }
    }
    let mut round: i32 = 0;
    let mut sync_rounds = 0;
    // ---- handshake phase (not under test): poll until everyone is Running
    if !scn.handshake_phase {
        loop {
            let all_running = nodes.iter().all(|n| match &n.sess {
                Sess::P(s) => s.current_state() == SessionState::Running,
                Sess::S(s) => s.current_state() == SessionState::Running,
            });
            if all_running {
                break;
            }
            if round >= scn.max_sync_rounds {
                cx.v("MACHINERY", "handshake-did-not-complete", 0, format!("not all sessions Running after {round} fault-free rounds"));
                return finish(nodes, cx, &net, round, None, round, 0, 1_000_000);
            }
            net.borrow_mut().round = round;
            ggrs::verif_hooks::advance_us(scn.round_us);
            for (ni, n) in nodes.iter_mut().enumerate() {
                let r = catch_unwind(AssertUnwindSafe(|| match &mut n.sess {
                    Sess::P(s) => {
                        s.poll_remote_clients();
                        s.events().map(ev_of).collect::<Vec<_>>()
                    }
                    Sess::S(s) => {
                        s.poll_remote_clients();
                        s.events().map(ev_of).collect::<Vec<_>>()
                    }
                }));
                match r {
                    Ok(evs) => {
                        let t = ggrs::verif_hooks::now_us();
                        for e in evs {
                            n.tr.events.push((round - 10_000, t, e));
                        }
                    }
                    Err(p) => {
                        let m = panic_msg(p);
                        cx.v("MACHINERY", "panic-in-fault-free-handshake", ni, m.clone());
                        n.tr.crashed = Some(m);
                    }
                }
            }
            round += 1;
        }
        sync_rounds = round;
        net.borrow_mut().base = round;
    }
    let base = net.borrow().base;
    let base_us = ggrs::verif_hooks::now_us();

    // ---- run phase
    let total = scn.horizon + scn.probe;
    let mut cut: Option<u32> = None;
    let mut new_states = 0u64;
    let mut bg_ticks: u64 = 0;
    let mut rel = 0;
    while rel < total {
        cx.rel = rel;
        {
            let mut n = net.borrow_mut();
            n.round = base + rel;
            n.chooser.enabled = rel < scn.horizon;
            for inj in &opt.injections {
                if inj.round == rel {
                    n.inject.push((inj.to, inj.from, inj.msg.clone(), inj.before));
                }
            }
            if rel >= scn.fault.start && rel < scn.fault.end && rel < scn.horizon {
                for (gi, group) in scn.fault.link_rounds.iter().enumerate() {
                    let c = n.chooser.choose(crate::chooser::PK_LINK, 2, rel, gi as u32);
                    if c == 1 {
                        for (f, t) in group {
                            n.outages.push(crate::net::Outage { from: *f, to: *t, start: rel, len: 1, classes: 0xFF });
                        }
                    }
                }
            }
            for inj in &scn.inject {
                if inj.round == rel {
                    n.inject.push((inj.to, inj.from, crate::wire::from_wire(&inj.msg), inj.before));
                }
            }
        }
        ggrs::verif_hooks::advance_us(scn.round_us);
        for ni in 0..nodes.len() {
            step_node(&mut nodes, ni, rel, scn, &net, &mut cx, &mut bg_ticks, opt);
        }
        if scn.extra_polls {
            for (ni, n) in nodes.iter_mut().enumerate() {
                if n.dead || n.tr.crashed.is_some() || n.tr.is_spec {
                    continue;
                }
                let r = catch_unwind(AssertUnwindSafe(|| {
                    if let Sess::P(s) = &mut n.sess {
                        s.poll_remote_clients();
                    }
                }));
                if let Err(p) = r {
                    let m = panic_msg(p);
                    cx.v("PANIC", "panic", ni, format!("poll_remote_clients panicked: {m}"));
                    n.tr.crashed = Some(m);
                    continue;
                }
                let drain = scn.peers[ni].drain;
                drain_events(n, rel, drain);
            }
        }
        rel += 1;
        // stateful exploration: stop at states that were seen before at the same depth
        if let Some(vis) = opt.visited {
            let all_consumed = chooser_consumed(&net, devs);
            if all_consumed && rel <= scn.horizon && cx.viol.is_empty() {
                let mut d: Vec<u8> = Vec::with_capacity(4096);
                for n in &nodes {
                    d.push(u8::from(n.dead));
                    d.push(u8::from(n.tr.crashed.is_some()));
                    match &n.sess {
                        Sess::P(s) => s.verif_digest(&mut d),
                        Sess::S(s) => s.verif_digest(&mut d),
                    }
                    d.extend_from_slice(&n.game.frame.to_le_bytes());
                    d.extend_from_slice(&n.game.hash.to_le_bytes());
                    d.extend_from_slice(&n.prev_conf.to_le_bytes());
                    d.extend_from_slice(&n.c01_checked.to_le_bytes());
                    // the event history matters to the lifecycle oracle: keep its hash
                    let mut eh = 0xcbf2_9ce4_8422_2325u64;
                    for (_, _, e) in &n.tr.events {
                        fnv(&mut eh, format!("{e:?}").as_bytes());
                    }
                    d.extend_from_slice(&eh.to_le_bytes());
                    // the frames handed out so far matter to the spectator oracle
                    let mut sh = 0xcbf2_9ce4_8422_2325u64;
                    if n.tr.is_spec {
                        for fr in &n.tr.sims {
                            fnv(&mut sh, &fr.vals);
                            fnv(&mut sh, &fr.stats);
                        }
                    }
                    d.extend_from_slice(&sh.to_le_bytes());
                }
                net.borrow().digest(&mut d);
                let mut h1 = 0xcbf2_9ce4_8422_2325u64;
                fnv(&mut h1, &d);
                let mut h2 = 0x9E37_79B9_7F4A_7C15u64;
                for c in d.chunks(8) {
                    let mut b = [0u8; 8];
                    b[..c.len()].copy_from_slice(c);
                    h2 = mix(h2, u64::from_le_bytes(b));
                }
                let fresh = vis.set.lock().unwrap().insert((rel, h1, h2));
                if fresh {
                    new_states += 1;
                } else {
                    cut = Some(net.borrow().chooser.points.len() as u32);
                    break;
                }
            }
        }
    }
    finish(nodes, cx, &net, rel, cut, sync_rounds, new_states, base_us)
}

fn chooser_consumed(net: &Rc<RefCell<SimNet>>, devs: &Devs) -> bool {
    let n = net.borrow();
    match devs.last() {
        None => true,
        Some(d) => (n.chooser.points.len() as u32) > d.0,
    }
}

fn new_node<C: HCfg>(sess: Sess<C>, addr: Addr, is_spec: bool, window: usize, scn: &Scenario, idx: usize) -> Node<C> {
    Node {
        sess,
        game: GameSt {
            frame: 0,
            hash: INITIAL_HASH,
        },
        tr: NodeTrace {
            is_spec,
            addr,
            calls: Vec::new(),
            events: Vec::new(),
            sims: Vec::new(),
            actions: Vec::new(),
            crashed: None,
            died_at: None,
            stats: NodeStats::default(),
            max_sizes: Vec::new(),
            size_series: Vec::new(),
            conn: Vec::new(),
            conn_at_disc: Vec::new(),
            final_sizes: Vec::new(),
            iter_orders: Vec::new(),
            peak_alloc: 0,
        },
        dead: false,
        window,
        state_at: vec![INITIAL_HASH],
        frozen: Vec::new(),
        c01_checked: -1,
        prev_conf: -1,
        resim: Vec::new(),
        first_sims: Vec::new(),
        diverge_from: scn.diverge.and_then(|(n, f)| if n == idx { Some(f) } else { None }),
        last_submit_frame: -1,
        stats_handle: if scn.checks & (1 << 22) != 0 && scn.stats_spectator {
            // hosts ask for their first spectator; spectators have a single link (any value)
            if idx >= scn.peers.len() || scn.specs.iter().any(|sp| sp.host == scn.peers[idx].addr) { scn.num_players } else { usize::MAX }
        } else if scn.checks & (1 << 22) != 0 && idx < scn.peers.len() {
            (0..scn.num_players).find(|h| scn.owner_of(*h) != idx).unwrap_or(usize::MAX)
        } else {
            usize::MAX
        },
    }
}

#[allow(clippy::too_many_arguments)]
fn step_node<C: HCfg>(
    nodes: &mut [Node<C>],
    ni: usize,
    rel: i32,
    scn: &Scenario,
    net: &Rc<RefCell<SimNet>>,
    cx: &mut Ctx,
    bg_ticks: &mut u64,
    opt: &RunOpt,
) {
    let n = &mut nodes[ni];
    let now = ggrs::verif_hooks::now_us;
    let mut rec = CallRec {
        round: rel,
        t_us: now(),
        res: R_OK,
        n_adv: 0,
        n_save: 0,
        n_load: 0,
        cur: 0,
        conf: -1,
        ahead: 0,
        behind: 0,
        running: false,
        cur_before: 0,
        stats: (255, -1, 0, 0),
    };
    if n.dead || n.tr.crashed.is_some() {
        return;
    }
    // scripted actions
    for item in scn.script.iter().filter(|i| i.round == rel && i.node == ni) {
        match &item.action {
            Action::Die => {
                n.dead = true;
                n.tr.died_at = Some(rel);
                net.borrow_mut().dead.push(n.tr.addr);
                return;
            }
            Action::Sleep { us } => ggrs::verif_hooks::advance_us(*us),
            Action::Poll => {
                let drain = if ni < scn.peers.len() { scn.peers[ni].drain } else { true };
                let r = catch_unwind(AssertUnwindSafe(|| match &mut n.sess {
                    Sess::P(s) => s.poll_remote_clients(),
                    Sess::S(s) => s.poll_remote_clients(),
                }));
                if let Err(p) = r {
                    let m = panic_msg(p);
                    cx.v("PANIC", "panic", ni, format!("poll_remote_clients panicked: {m}"));
                    n.tr.crashed = Some(m);
                    return;
                }
                drain_events(n, rel, drain);
                // the buffer sizes right after a bare poll count too
                if opt.track_sizes {
                    record_sizes(n, true);
                } else if scn.checks & (1 << 21) != 0 {
                    record_sizes(n, false);
                }
            }
            a => {
                let Sess::P(s) = &mut n.sess else { continue };
                let cur_frame = s.current_frame();
                let r = catch_unwind(AssertUnwindSafe(|| match a {
                    Action::SetDelay { handle, delay } => s.set_input_delay(*handle, *delay).map(|_| String::new()),
                    Action::Disconnect { handle } => s.disconnect_player(*handle).map(|_| String::new()),
                    Action::AddInputFor { handle } => s
                        .add_local_input(*handle, C::enc(scn.program.value(*handle, cur_frame)))
                        .map(|_| String::new()),
                    Action::NetStats { handle } => s.network_stats(*handle).map(|st| format!("{st:?}")),
                    Action::AdvanceWithoutInput => s.advance_frame().map(|r| format!("{} requests", r.len())),
                    Action::Die | Action::Sleep { .. } | Action::Poll => unreachable!(),
                }));
                let (res, detail) = match r {
                    Ok(Ok(d)) => (R_OK, d),
                    Ok(Err(e)) => (err_code(&e), e.to_string()),
                    Err(p) => {
                        let m = panic_msg(p);
                        n.tr.crashed = Some(m.clone());
                        (R_PANIC, m)
                    }
                };
                let conn_after = if res == R_PANIC { Vec::new() } else { s.verif_connect_status() };
                let me = n.tr.addr;
                let delivered_at_call: Vec<(Addr, i32)> = net
                    .borrow()
                    .delivered_frames
                    .iter()
                    .filter(|((to, _), _)| *to == me)
                    .map(|((_, from), f)| (*from, *f))
                    .collect();
                n.tr.actions.push(ActionRec {
                    round: rel,
                    action: a.clone(),
                    res,
                    detail,
                    conn_after,
                    delivered_at_call,
                    cur_before: cur_frame,
                });
                if n.tr.crashed.is_some() {
                    return;
                }
            }
        }
    }
    rec.t_us = now();
    crate::net::WAIT_EARLY.with(|c| c.set(0));
    crate::net::WAIT_YIELDS_THIS_CALL.with(|c| c.set(0));
    let is_spec = n.tr.is_spec;
    // schedule
    let (tick_every, tick_phase, poll_only, use_wait, drain) = if is_spec {
        let s = &scn.specs[ni - scn.peers.len()];
        if let Some(sf) = s.silent_from {
            if rel >= sf {
                return;
            }
        }
        let paused = s.pauses.iter().any(|(a, l)| rel >= *a && rel < *a + *l);
        if paused && !s.pause_polls {
            rec.res = R_NO_TICK;
            n.tr.calls.push(rec);
            return;
        }
        (s.tick_every, 0, paused, false, s.drain)
    } else {
        let p = &scn.peers[ni];
        (p.tick_every, p.tick_phase, p.poll_only, p.use_wait, p.drain)
    };
    if rel.rem_euclid(tick_every.max(1)) != tick_phase {
        rec.res = R_NO_TICK;
        n.tr.calls.push(rec);
        return;
    }
    let mut mode = 0usize; // 0 tick, 1 stall, 2 poll only
    {
        let mut nb = net.borrow_mut();
        let f = &nb.fault;
        if f.tick_alts > 0 && rel >= f.start && rel < f.end {
            let alts = f.tick_alts as usize;
            mode = nb.chooser.choose(PK_TICK, 1 + alts, rel, ni as u32);
        }
    }
    if mode == 0 && scn.background.stall_every > 0 {
        // per node (phase-shifted by the node index), for the same reason as the packet counter
        let _ = &bg_ticks;
        let t = rel as u64 + 5 * ni as u64;
        if t % scn.background.stall_every == scn.background.stall_every - 1 {
            mode = 1;
        }
    }
    if poll_only {
        mode = 2;
    }
    if scn.scripted_stalls.contains(&(ni, rel)) {
        mode = 1;
    }
    if mode == 1 {
        rec.res = R_STALLED;
        fill_rec(n, &mut rec);
        n.tr.calls.push(rec);
        return;
    }
    if mode == 2 {
        let alloc_base = crate::alloc::begin(usize::MAX);
        let r = catch_unwind(AssertUnwindSafe(|| match &mut n.sess {
            Sess::P(s) => s.poll_remote_clients(),
            Sess::S(s) => s.poll_remote_clients(),
        }));
        n.tr.peak_alloc = n.tr.peak_alloc.max(crate::alloc::end(alloc_base));
        rec.res = R_POLL_ONLY;
        if let Err(p) = r {
            let m = panic_msg(p);
            cx.v("PANIC", "panic", ni, format!("poll_remote_clients panicked: {m}"));
            n.tr.crashed = Some(m);
            rec.res = R_PANIC;
        }
        drain_events(n, rel, drain);
        fill_rec(n, &mut rec);
        n.tr.calls.push(rec);
        return;
    }
    // a real tick
    match &mut n.sess {
        Sess::P(s) => {
            let f = s.current_frame();
            rec.cur_before = f;
            let resubmission = n.last_submit_frame == f;
            n.last_submit_frame = f;
            let handles = scn.peers[ni].locals.clone();
            let alloc_base = crate::alloc::begin(usize::MAX);
            let r = catch_unwind(AssertUnwindSafe(|| {
                let style = scn.peers[ni].input_style;
                let mut order = handles.clone();
                if style == 1 {
                    order.reverse();
                }
                // style 3: an application that samples its input device anew on every tick: when
                // the previous call did not advance the frame, the value handed over for the same
                // frame now differs. The value submitted (and sent) first stays the true one.
                let again = style == 3 && resubmission;
                for h in &order {
                    if style == 2 {
                        s.add_local_input(*h, C::enc(scn.program.value(*h, f) ^ 0x5A)).expect("add_local_input for a local handle");
                    }
                    let v = scn.program.value(*h, f) ^ if again { 0x21 } else { 0 };
                    s.add_local_input(*h, C::enc(v)).expect("add_local_input for a local handle");
                }
                if use_wait {
                    match scn.peers[ni].wait_timeout_ms {
                        Some(ms) => s.advance_frame_with_wait_timeout(std::time::Duration::from_millis(ms)),
                        None => s.advance_frame_with_wait(),
                    }
                } else {
                    s.advance_frame()
                }
            }));
            n.tr.peak_alloc = n.tr.peak_alloc.max(crate::alloc::end(alloc_base));
            crate::net::WAIT_EARLY.with(|c| c.set(0));
            match r {
                Ok(Ok(reqs)) => {
                    rec.res = R_OK;
                    {
                        let nb = net.borrow();
                        let me = scn.peers[ni].addr;
                        cx.delivered = (0..scn.num_players)
                            .map(|p| {
                                let o = scn.owner_of(p);
                                if o == ni {
                                    i32::MAX
                                } else if nb.track_frames {
                                    nb.delivered_frames.get(&(me, scn.peers[o].addr)).copied().unwrap_or(-1)
                                } else {
                                    i32::MAX
                                }
                            })
                            .collect();
                    }
                    let rr = catch_unwind(AssertUnwindSafe(|| {
                        n.exec(ni, reqs, cx, &mut rec);
                        n.post_call(ni, cx);
                    }));
                    if let Err(p) = rr {
                        let m = panic_msg(p);
                        cx.v("PANIC", "panic", ni, format!("executing the request list panicked: {m}"));
                        n.tr.crashed = Some(m);
                        rec.res = R_PANIC;
                    }
                }
                Ok(Err(e)) => {
                    rec.res = err_code(&e);
                    if rec.res != R_NOT_SYNC {
                        cx.v("C02", "advance-error", ni, format!("advance_frame returned {e}"));
                    }
                }
                Err(p) => {
                    let m = panic_msg(p);
                    cx.v("PANIC", "panic", ni, format!("advance_frame panicked: {m}"));
                    n.tr.crashed = Some(m);
                    rec.res = R_PANIC;
                }
            }
        }
        Sess::S(s) => {
            // explicit poll first so that frames_behind_host() is the value the pacing rule uses
            let alloc_base = crate::alloc::begin(usize::MAX);
            let r = catch_unwind(AssertUnwindSafe(|| {
                s.poll_remote_clients();
                let behind = if s.current_state() == SessionState::Running {
                    s.frames_behind_host() as i32
                } else {
                    0
                };
                (behind, s.advance_frame())
            }));
            n.tr.peak_alloc = n.tr.peak_alloc.max(crate::alloc::end(alloc_base));
            match r {
                Ok((behind, Ok(reqs))) => {
                    rec.behind = behind;
                    let rr = catch_unwind(AssertUnwindSafe(|| n.exec(ni, reqs, cx, &mut rec)));
                    if let Err(p) = rr {
                        let m = panic_msg(p);
                        cx.v("PANIC", "panic", ni, format!("executing the spectator's request list panicked: {m}"));
                        n.tr.crashed = Some(m);
                        rec.res = R_PANIC;
                    }
                }
                Ok((behind, Err(e))) => {
                    rec.behind = behind;
                    rec.res = err_code(&e);
                }
                Err(p) => {
                    let m = panic_msg(p);
                    cx.v("PANIC", "panic", ni, format!("spectator advance_frame panicked: {m}"));
                    n.tr.crashed = Some(m);
                    rec.res = R_PANIC;
                }
            }
        }
    }
    if n.tr.crashed.is_none() {
        drain_events(n, rel, drain);
        fill_rec(n, &mut rec);
        if opt.track_sizes {
            record_sizes(n, true);
        } else if scn.checks & (1 << 21) != 0 {
            record_sizes(n, false);
        }
    }
    n.tr.calls.push(rec);
}

fn fill_rec<C: HCfg>(n: &mut Node<C>, rec: &mut CallRec) {
    if n.tr.crashed.is_some() {
        return;
    }
    let r = catch_unwind(AssertUnwindSafe(|| match &n.sess {
        Sess::P(s) => (
            s.current_frame(),
            // from the connection-status accessor, not from confirmed_frame() (C03 cross-checks
            // the API against it): judges use it to decide which frames are final
            s.verif_connect_status().iter().filter(|c| !c.0).map(|c| c.1).min().unwrap_or_else(|| s.confirmed_frame()),
            s.frames_ahead(),
            s.current_state() == SessionState::Running,
        ),
        Sess::S(s) => (
            s.current_frame() + 1,
            0,
            0,
            s.current_state() == SessionState::Running,
        ),
    }));
    if let Sess::P(s) = &n.sess {
        if n.stats_handle != usize::MAX {
            rec.stats = match catch_unwind(AssertUnwindSafe(|| s.network_stats(n.stats_handle))) {
                Ok(Ok(st)) => (R_OK, st.ping as i64, st.local_frames_behind, st.remote_frames_behind),
                Ok(Err(e)) => (err_code(&e), -1, 0, 0),
                Err(_) => (R_PANIC, -1, 0, 0),
            };
        }
    }
    if let Sess::S(s) = &n.sess {
        if n.stats_handle != usize::MAX {
            rec.stats = match catch_unwind(AssertUnwindSafe(|| s.network_stats())) {
                Ok(Ok(st)) => (R_OK, st.ping as i64, st.local_frames_behind, st.remote_frames_behind),
                Ok(Err(e)) => (err_code(&e), -1, 0, 0),
                Err(_) => (R_PANIC, -1, 0, 0),
            };
        }
    }
    if let Ok((cur, conf, ahead, running)) = r {
        rec.cur = cur;
        rec.conf = conf;
        rec.ahead = ahead;
        rec.running = running;
    }
}

fn drain_events<C: HCfg>(n: &mut Node<C>, rel: i32, drain: bool) {
    if !drain {
        return;
    }
    let t = ggrs::verif_hooks::now_us();
    let evs: Vec<Ev> = match &mut n.sess {
        Sess::P(s) => s.events().map(ev_of).collect(),
        Sess::S(s) => s.events().map(ev_of).collect(),
    };
    let disc = evs.iter().any(|e| matches!(e, Ev::Disconnected { .. }));
    for e in evs {
        n.tr.events.push((rel, t, e));
    }
    if disc && n.tr.conn_at_disc.is_empty() {
        if let Sess::P(s) = &n.sess {
            n.tr.conn_at_disc = s.verif_connect_status();
        }
    }
}

#[allow(clippy::too_many_arguments)]
fn finish<C: HCfg>(
    mut nodes: Vec<Node<C>>,
    cx: Ctx,
    net: &Rc<RefCell<SimNet>>,
    rounds_run: i32,
    cut: Option<u32>,
    sync_rounds: i32,
    new_states: u64,
    base_us: u64,
) -> ExecResult {
    let mut cx = cx;
    for (ni, n) in nodes.iter_mut().enumerate() {
        if n.tr.crashed.is_none() {
            if let Sess::P(s) = &n.sess {
                n.tr.conn = s.verif_connect_status();
            }
            record_sizes(n, false);
            // an application that never drained its events during the run looks at them now:
            // what the queue finally holds is recorded with the last round
            let undrained = if ni < cx.scn.peers.len() { !cx.scn.peers[ni].drain } else { !cx.scn.specs[ni - cx.scn.peers.len()].drain };
            if undrained {
                drain_events(n, rounds_run, true);
            }
        }
        // C03 at the end of the run, against the FINAL connection status: a frame of the final
        // timeline says Disconnected for a player exactly when it lies beyond the last frame
        // finally held from that player (a cut-off that moves after frames were handed out as
        // Disconnected leaves such frames behind)
        if cx.scn.checks & CK_C03 != 0 && n.tr.crashed.is_none() && !n.tr.is_spec && cut.is_none() {
            let conf = n.tr.calls.last().map(|c| c.conf.min(c.cur - 1)).unwrap_or(-1);
            'frames: for (f, fr) in n.tr.sims.iter().enumerate() {
                if f as i32 > conf {
                    break;
                }
                for (p, st) in fr.stats.iter().enumerate() {
                    let Some(&(disc, last)) = n.tr.conn.get(p) else { continue };
                    if *st == 2 && (!disc || last >= f as i32) {
                        cx.v("C03", "disconnected-untrue", ni, format!("final timeline frame {f} player {p}: status Disconnected, but at the end of the run the session holds that player's input up to frame {last} (disconnected flag {disc})"));
                        break 'frames;
                    }
                    if *st == 0 && disc && last < f as i32 {
                        cx.v("C03", "confirmed-untrue", ni, format!("final timeline frame {f} player {p}: status Confirmed, but the player is disconnected with last frame {last}"));
                        break 'frames;
                    }
                }
            }
        }
    }
    let mut nb = net.borrow_mut();
    nb.chooser.finish();
    let mut fp = 0xcbf2_9ce4_8422_2325u64;
    for n in &nodes {
        for c in &n.tr.calls {
            fnv(&mut fp, &[c.res, c.n_adv, c.n_save, c.n_load]);
            fnv(&mut fp, &c.cur.to_le_bytes());
            fnv(&mut fp, &c.conf.to_le_bytes());
        }
        for (r, _, e) in &n.tr.events {
            fnv(&mut fp, &r.to_le_bytes());
            fnv(&mut fp, format!("{e:?}").as_bytes());
        }
        for f in &n.tr.sims {
            fnv(&mut fp, &f.vals);
            fnv(&mut fp, &f.stats);
            fnv(&mut fp, &f.count.to_le_bytes());
        }
        for a in &n.tr.actions {
            fnv(&mut fp, &[a.res]);
        }
        fnv(&mut fp, &[u8::from(n.tr.crashed.is_some())]);
    }
    let sniff = nb.sniff.take().unwrap_or_default();
    ExecResult {
        nodes: nodes.into_iter().map(|n| n.tr).collect(),
        violations: cx.viol,
        points: std::mem::take(&mut nb.chooser.points),
        divergence: nb.chooser.divergence.clone(),
        fingerprint: fp,
        net: nb.stats.clone(),
        sync_rounds,
        cut,
        rounds_run,
        new_states,
        sniff,
        last_recv_us: nb.last_recv_us.clone(),
        delivered_frames: nb.delivered_frames.clone(),
        recv_log: std::mem::take(&mut nb.recv_log),
        matched_log: std::mem::take(&mut nb.matched_log),
        base_us,
    }
}

pub fn run_scn(scn: &Scenario, devs: &Devs, opt: &RunOpt) -> ExecResult {
    match (scn.pred, scn.wide) {
        (Pred::RepeatLast, false) => run::<CfgR>(scn, devs, opt),
        (Pred::Default, false) => run::<CfgD>(scn, devs, opt),
        (Pred::RepeatLast, true) => run::<CfgWR>(scn, devs, opt),
        (Pred::Default, true) => run::<CfgWD>(scn, devs, opt),
    }
}
