//! Mirror of ggrs' wire format. `ggrs::Message` has public serde impls but private fields, so
//! packets are read and forged by (de)serialising these structurally identical types with bincode.
use ggrs::Message;
use serde::{Deserialize, Serialize};

#[derive(Clone, Copy, Debug, PartialEq, Eq, Serialize, Deserialize)]
pub struct WConn {
    pub disconnected: bool,
    pub last_frame: i32,
}

#[derive(Clone, Debug, PartialEq, Eq, Serialize, Deserialize)]
pub struct WInput {
    pub peer_connect_status: Vec<WConn>,
    pub disconnect_requested: bool,
    pub start_frame: i32,
    pub ack_frame: i32,
    pub bytes: Vec<u8>,
}

#[derive(Clone, Debug, PartialEq, Eq, Serialize, Deserialize)]
pub enum WBody {
    SyncRequest { random_request: u32 },
    SyncReply { random_reply: u32 },
    Input(WInput),
    InputAck { ack_frame: i32 },
    QualityReport { frame_advantage: i16, ping: u128 },
    QualityReply { pong: u128 },
    ChecksumReport { checksum: u128, frame: i32 },
    KeepAlive,
}

#[derive(Clone, Debug, PartialEq, Eq, Serialize, Deserialize)]
pub struct WMessage {
    pub magic: u16,
    pub body: WBody,
}

pub const K_SYNC_REQ: u8 = 0;
pub const K_SYNC_REP: u8 = 1;
pub const K_INPUT: u8 = 2;
pub const K_INPUT_ACK: u8 = 3;
pub const K_QREPORT: u8 = 4;
pub const K_QREPLY: u8 = 5;
pub const K_CHECKSUM: u8 = 6;
pub const K_KEEPALIVE: u8 = 7;

pub const CLASS_ALL: u16 = 0xFF;
pub const CLASS_HANDSHAKE: u16 = (1 << K_SYNC_REQ) | (1 << K_SYNC_REP);
pub const CLASS_INPUT: u16 = 1 << K_INPUT;
pub const CLASS_INPUT_ACK: u16 = 1 << K_INPUT_ACK;
pub const CLASS_RUNNING: u16 = CLASS_ALL & !CLASS_HANDSHAKE;

pub const KIND_NAMES: [&str; 8] = [
    "SyncRequest",
    "SyncReply",
    "Input",
    "InputAck",
    "QualityReport",
    "QualityReply",
    "ChecksumReport",
    "KeepAlive",
];

impl WBody {
    pub fn kind(&self) -> u8 {
        match self {
            WBody::SyncRequest { .. } => K_SYNC_REQ,
            WBody::SyncReply { .. } => K_SYNC_REP,
            WBody::Input(_) => K_INPUT,
            WBody::InputAck { .. } => K_INPUT_ACK,
            WBody::QualityReport { .. } => K_QREPORT,
            WBody::QualityReply { .. } => K_QREPLY,
            WBody::ChecksumReport { .. } => K_CHECKSUM,
            WBody::KeepAlive => K_KEEPALIVE,
        }
    }
}

pub fn to_wire(m: &Message) -> WMessage {
    let b = bincode::serialize(m).expect("serialize Message");
    bincode::deserialize(&b).expect("mirror deserialization of a real Message failed: wire mirror out of date")
}

pub fn from_wire(w: &WMessage) -> Message {
    let b = bincode::serialize(w).expect("serialize mirror");
    bincode::deserialize(&b).expect("a mirror message must deserialize as ggrs::Message")
}

pub fn msg_bytes(m: &Message) -> Vec<u8> {
    bincode::serialize(m).expect("serialize Message")
}
