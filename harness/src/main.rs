mod alloc;
mod chooser;
mod explore;
mod lifecycle;
mod net;
mod props;
mod replay;
mod report;
mod scenario;
mod types;
mod wire;
mod world;

#[global_allocator]
static GLOBAL: alloc::Counting = alloc::Counting;

fn main() {
    // panics inside the subject are observations, not crashes of the harness: keep them quiet
    std::panic::set_hook(Box::new(|_| {}));
    let args: Vec<String> = std::env::args().collect();
    if args.len() < 2 {
        eprintln!("usage: ggrs-mc <property id> [--tier quick|thorough] | replay <file>");
        std::process::exit(2);
    }
    let code = match args[1].as_str() {
        "replay" => replay::replay(args.get(2).map(String::as_str).unwrap_or("")),
        "C01" => props::core::c01(),
        "C02" => props::core::c02(),
        "C03" => props::core::c03(),
        "C04" => props::core::c04(),
        "C05" => props::recovery::c05(),
        "C06" => props::spectator::c06(),
        "C07" => props::drop::c07(),
        "C08" => props::malformed::c08(),
        "C09" => props::desync::c09(),
        "C10" => props::cutoff::c10(),
        "C11" => props::delay::c11(),
        "C12" => props::lifecycle_check::c12(),
        "C13" => props::synctest::c13(),
        "C15" => props::timesync::c15(),
        "C16" => props::builder::c16(),
        "C17" => props::hashorder::c17(),
        "C18" => props::bounded::c18(),
        "C14" => props::codec::c14(),
        "worker-c14" => props::codec::worker(&args[2..]),
        other => {
            eprintln!("unknown command {other}");
            2
        }
    };
    std::process::exit(code);
}
