//! Basic types shared by the whole harness: the two `Config`s (one per shipped predictor),
//! the deliberately sensitive game, and the input programs.
use ggrs::{Config, InputStatus, PredictDefault, PredictRepeatLast};
use serde::{Deserialize, Serialize};

pub type Addr = u8;

#[derive(Clone, Copy, Debug, PartialEq, Eq, Hash, Default, Serialize, Deserialize)]
pub struct GameSt {
    pub frame: i32,
    pub hash: u64,
}

#[derive(Debug)]
pub struct CfgR;
impl Config for CfgR {
    type Input = u8;
    type InputPredictor = PredictRepeatLast;
    type State = GameSt;
    type Address = Addr;
}

#[derive(Debug)]
pub struct CfgD;
impl Config for CfgD {
    type Input = u8;
    type InputPredictor = PredictDefault;
    type State = GameSt;
    type Address = Addr;
}

/// A five-byte input (1 + 2 + 2 bytes under bincode) whose redundant fields are functions of the
/// value byte: a session that splits, joins, delta-encodes or predicts multi-byte inputs wrongly
/// hands the game an input whose fields no longer agree. The default (all zero) is "no input".
#[derive(Clone, Copy, Debug, PartialEq, Eq, Default, Serialize, Deserialize)]
pub struct Wide {
    pub v: u8,
    pub a: u16,
    pub b: [u8; 2],
}

impl Wide {
    pub fn of(v: u8) -> Self {
        if v == 0 {
            return Self::default();
        }
        Self {
            v,
            a: (u16::from(v) * 257) ^ 0x5AA5,
            b: [v.wrapping_mul(31).wrapping_add(7), !v],
        }
    }
}

#[derive(Debug)]
pub struct CfgWR;
impl Config for CfgWR {
    type Input = Wide;
    type InputPredictor = PredictRepeatLast;
    type State = GameSt;
    type Address = Addr;
}

#[derive(Debug)]
pub struct CfgWD;
impl Config for CfgWD {
    type Input = Wide;
    type InputPredictor = PredictDefault;
    type State = GameSt;
    type Address = Addr;
}

/// What the harness needs to know about a config beyond `ggrs::Config`.
pub trait HCfg: Config<State = GameSt, Address = Addr> + std::fmt::Debug {
    const PRED: Pred;
    /// the input an application hands over for the program value `v`
    fn enc(v: u8) -> Self::Input;
    /// the program value of an input handed to the game, and whether the input is intact
    fn dec(i: &Self::Input) -> (u8, bool);
    fn show(i: &Self::Input) -> String;
}
impl HCfg for CfgR {
    const PRED: Pred = Pred::RepeatLast;
    fn enc(v: u8) -> u8 {
        v
    }
    fn dec(i: &u8) -> (u8, bool) {
        (*i, true)
    }
    fn show(i: &u8) -> String {
        format!("{i}")
    }
}
impl HCfg for CfgD {
    const PRED: Pred = Pred::Default;
    fn enc(v: u8) -> u8 {
        v
    }
    fn dec(i: &u8) -> (u8, bool) {
        (*i, true)
    }
    fn show(i: &u8) -> String {
        format!("{i}")
    }
}
impl HCfg for CfgWR {
    const PRED: Pred = Pred::RepeatLast;
    fn enc(v: u8) -> Wide {
        Wide::of(v)
    }
    fn dec(i: &Wide) -> (u8, bool) {
        (i.v, *i == Wide::of(i.v))
    }
    fn show(i: &Wide) -> String {
        format!("{i:?}")
    }
}
impl HCfg for CfgWD {
    const PRED: Pred = Pred::Default;
    fn enc(v: u8) -> Wide {
        Wide::of(v)
    }
    fn dec(i: &Wide) -> (u8, bool) {
        (i.v, *i == Wide::of(i.v))
    }
    fn show(i: &Wide) -> String {
        format!("{i:?}")
    }
}

#[derive(Clone, Copy, Debug, PartialEq, Eq, Serialize, Deserialize)]
pub enum Pred {
    RepeatLast,
    Default,
}

impl Pred {
    pub fn predict(self, prev: u8) -> u8 {
        match self {
            Pred::RepeatLast => prev,
            Pred::Default => 0,
        }
    }
}

#[derive(Clone, Copy, Debug, PartialEq, Eq, Serialize, Deserialize)]
pub enum Program {
    /// differs from the previous frame on every frame (every repeat-last prediction is wrong)
    Changing,
    /// changes every third frame
    Runs,
    /// default value with isolated non-default frames
    Sparse,
    /// one constant non-default value
    Constant,
}

impl Program {
    /// The value player `p` submits while its session is at frame `f` (before input delay).
    pub fn value(self, p: usize, f: i32) -> u8 {
        let f = f.max(0) as u64;
        let p = p as u64;
        match self {
            // consecutive frames always differ (the step is 2, 3 or 4 mod 5) and the period is
            // 175 frames, so that no ring size in the crate (30, 32, 60, 128, window+1) maps a frame
            // onto one with the same value pattern
            Program::Changing => 1 + ((2 * f + 3 * p + f / 5 + f / 7) % 5) as u8,
            // runs of three equal frames; period 165 (no aliasing with the ring sizes either)
            Program::Runs => 1 + (((f + p) / 3 + f / 11 + p) % 5) as u8,
            Program::Sparse => {
                if (f + 2 * p) % 7 == 3 {
                    1 + ((f / 7 + p) % 4) as u8
                } else {
                    0
                }
            }
            Program::Constant => 3 + p as u8,
        }
    }
}

pub fn mix(h: u64, v: u64) -> u64 {
    let mut z = h ^ v.wrapping_mul(0x9E37_79B9_7F4A_7C15);
    z = (z ^ (z >> 30)).wrapping_mul(0xBF58_476D_1CE4_E5B9);
    z = (z ^ (z >> 27)).wrapping_mul(0x94D0_49BB_1331_11EB);
    z ^ (z >> 31)
}

pub const INITIAL_HASH: u64 = 0x5EED_0F_6A3E;

/// One step of the game: the new hash depends on the frame, every input value and whether the
/// input was handed out as Disconnected (a game may let an AI take over), but not on
/// Confirmed-vs-Predicted (a right prediction is never re-simulated).
pub fn game_step(st: GameSt, inputs: &[(u8, InputStatus)]) -> GameSt {
    let mut h = mix(st.hash, st.frame as u64);
    for (v, s) in inputs {
        let d = u64::from(*s == InputStatus::Disconnected);
        h = mix(h, u64::from(*v) | (d << 8));
    }
    GameSt {
        frame: st.frame + 1,
        hash: h,
    }
}

pub fn game_step_vals(st: GameSt, inputs: &[(u8, bool)]) -> GameSt {
    let mut h = mix(st.hash, st.frame as u64);
    for (v, d) in inputs {
        h = mix(h, u64::from(*v) | (u64::from(*d) << 8));
    }
    GameSt {
        frame: st.frame + 1,
        hash: h,
    }
}

pub fn status_code(s: InputStatus) -> u8 {
    match s {
        InputStatus::Confirmed => 0,
        InputStatus::Predicted => 1,
        InputStatus::Disconnected => 2,
    }
}

pub fn fnv(h: &mut u64, bytes: &[u8]) {
    for b in bytes {
        *h ^= u64::from(*b);
        *h = h.wrapping_mul(0x100_0000_01b3);
    }
}
