//! Plain-data description of one closed system. A scenario plus a deviation list determines an
//! execution completely.
use crate::net::{FaultSpec, Outage, ScriptedFate};
use crate::types::{Addr, Pred, Program};
use serde::{Deserialize, Serialize};

pub const CK_C01: u32 = 1 << 1;
pub const CK_C02: u32 = 1 << 2;
pub const CK_C03: u32 = 1 << 3;
pub const CK_C04: u32 = 1 << 4;
pub const CK_FINALITY: u32 = 1 << 20;
pub const CK_CORE: u32 = CK_C01 | CK_C02 | CK_C03 | CK_C04 | CK_FINALITY;

#[derive(Clone, Debug, Serialize, Deserialize)]
pub struct PeerSpec {
    pub addr: Addr,
    pub locals: Vec<usize>,
    pub window: usize,
    pub delay: usize,
    pub sparse: bool,
    /// desync detection interval, 0 = off
    pub desync: u32,
    pub notify_ms: u64,
    pub timeout_ms: u64,
    /// the peer ticks in rounds r with r % tick_every == tick_phase
    pub tick_every: i32,
    pub tick_phase: i32,
    /// use advance_frame_with_wait instead of advance_frame
    pub use_wait: bool,
    pub drain: bool,
    /// the peer only polls, never advances
    pub poll_only: bool,
    /// with `use_wait`: call advance_frame_with_wait_timeout with this timeout instead of
    /// advance_frame_with_wait
    #[serde(default)]
    pub wait_timeout_ms: Option<u64>,
    /// how the application hands over its local inputs: 0 = once per player in handle order,
    /// 1 = in descending handle order, 2 = twice (a wrong value first; the documentation says the
    /// later call overwrites the earlier one)
    #[serde(default)]
    pub input_style: u8,
    /// order of the builder's setter calls: 0 = window, delay, sparse, fps, timeouts, desync;
    /// 1 = the reverse (sparse saving and delay are set before the window they interact with)
    #[serde(default)]
    pub builder_order: u8,
}

impl PeerSpec {
    pub fn new(addr: Addr, locals: Vec<usize>, window: usize, delay: usize, sparse: bool) -> Self {
        Self {
            addr,
            locals,
            window,
            delay,
            sparse,
            desync: 0,
            notify_ms: 500,
            timeout_ms: 2000,
            tick_every: 1,
            tick_phase: 0,
            use_wait: false,
            drain: true,
            poll_only: false,
            wait_timeout_ms: None,
            input_style: 0,
            builder_order: 0,
        }
    }
}

#[derive(Clone, Debug, Serialize, Deserialize)]
pub struct SpecSpec {
    pub addr: Addr,
    pub host: Addr,
    pub max_behind: usize,
    pub catchup: usize,
    pub window: usize,
    pub tick_every: i32,
    /// (start, len) in relative rounds during which the spectator does not tick at all
    pub pauses: Vec<(i32, i32)>,
    pub notify_ms: u64,
    pub timeout_ms: u64,
    pub drain: bool,
    /// never polls or ticks (silent spectator)
    pub silent_from: Option<i32>,
    /// during a pause the spectator still polls (receives and acknowledges) but does not advance
    #[serde(default)]
    pub pause_polls: bool,
}

impl SpecSpec {
    pub fn new(addr: Addr, host: Addr) -> Self {
        Self {
            addr,
            host,
            max_behind: 10,
            catchup: 1,
            window: 8,
            tick_every: 1,
            pauses: Vec::new(),
            notify_ms: 500,
            timeout_ms: 2000,
            drain: true,
            silent_from: None,
            pause_polls: false,
        }
    }
}

#[derive(Clone, Debug, Serialize, Deserialize, PartialEq)]
pub enum Action {
    SetDelay { handle: usize, delay: usize },
    Disconnect { handle: usize },
    /// the node dies: it never steps again and nothing it sent from now on is delivered
    Die,
    /// advance_frame without having added local input
    AdvanceWithoutInput,
    AddInputFor { handle: usize },
    NetStats { handle: usize },
    /// a long sleep before this node's step (virtual microseconds)
    Sleep { us: u64 },
    /// poll_remote_clients before this node's step (an application that polls between ticks)
    Poll,
}

impl ScriptItem {
    /// calls that a valid program would not make (C16 inserts them and expects no effect)
    pub fn action_is_misuse(&self) -> bool {
        matches!(self.action, Action::AdvanceWithoutInput | Action::AddInputFor { .. } | Action::NetStats { .. } | Action::SetDelay { .. } | Action::Disconnect { .. })
    }
}

#[derive(Clone, Debug, Serialize, Deserialize)]
pub struct ScriptItem {
    pub round: i32,
    pub node: usize,
    pub action: Action,
}

#[derive(Clone, Debug, Serialize, Deserialize, Default)]
pub struct Background {
    /// every n-th Input packet (globally counted) is dropped / delayed; 0 = off
    pub loss_every: u64,
    pub delay_every: u64,
    /// every n-th tick (globally counted) is a stall; 0 = off
    pub stall_every: u64,
}

#[derive(Clone, Debug, Serialize, Deserialize)]
pub struct InjectSpec {
    pub round: i32,
    pub to: Addr,
    pub from: Addr,
    pub msg: crate::wire::WMessage,
    /// handed over before (true) or after (false) the authentic packets of that poll
    pub before: bool,
}

#[derive(Clone, Debug, Serialize, Deserialize)]
pub struct Scenario {
    pub name: String,
    pub pred: Pred,
    pub num_players: usize,
    pub peers: Vec<PeerSpec>,
    pub specs: Vec<SpecSpec>,
    pub program: Program,
    pub latency: i32,
    pub fps: usize,
    pub round_us: u64,
    /// rounds of the running phase in which choice points may be offered
    pub horizon: i32,
    /// further fault-free rounds (recovery probe); no choice points, outages must have ended
    pub probe: i32,
    pub fault: FaultSpec,
    pub outages: Vec<Outage>,
    pub scripted: Vec<ScriptedFate>,
    pub script: Vec<ScriptItem>,
    pub background: Background,
    pub rng_seed: u64,
    pub hash_seed: u64,
    pub checks: u32,
    /// faults/script rounds are relative to world creation instead of the start of the run phase
    pub handshake_phase: bool,
    /// maximum number of rounds the handshake may take when it is not under test
    pub max_sync_rounds: i32,
    /// (node, frame): that node's game perturbs its hash from that frame on
    pub diverge: Option<(usize, i32)>,
    pub max_points: u32,
    #[serde(default)]
    pub inject: Vec<InjectSpec>,
    /// per-link latency overrides (from, to, rounds)
    #[serde(default)]
    pub link_lat: Vec<(Addr, Addr, i32)>,
    /// (node, round): that node skips its tick in that round
    #[serde(default)]
    pub scripted_stalls: Vec<(usize, i32)>,
    /// nodes whose game saves its states without a checksum
    #[serde(default)]
    pub no_checksum: Vec<usize>,
    /// every player session polls once more at the end of each round (an application that polls
    /// more often than it ticks); with latency 0 a request and its reply then fall into one
    /// instant of virtual time
    #[serde(default)]
    pub extra_polls: bool,
    /// network_stats() is taken for the host<->spectator link (the host asks for its first
    /// spectator's handle, the spectator for its host) instead of the first remote player
    #[serde(default)]
    pub stats_spectator: bool,
    /// the sessions run with the five-byte input type `Wide` instead of `u8`
    #[serde(default)]
    pub wide: bool,
}

impl Scenario {
    pub fn new(name: &str, num_players: usize, peers: Vec<PeerSpec>) -> Self {
        Self {
            name: name.to_owned(),
            pred: Pred::RepeatLast,
            num_players,
            peers,
            specs: Vec::new(),
            program: Program::Changing,
            latency: 1,
            fps: 60,
            round_us: 16_667,
            horizon: 40,
            probe: 0,
            fault: FaultSpec::default(),
            outages: Vec::new(),
            scripted: Vec::new(),
            script: Vec::new(),
            background: Background::default(),
            rng_seed: 7,
            hash_seed: 1,
            checks: CK_CORE,
            handshake_phase: false,
            max_sync_rounds: 200,
            diverge: None,
            max_points: u32::MAX,
            inject: Vec::new(),
            link_lat: Vec::new(),
            scripted_stalls: Vec::new(),
            no_checksum: Vec::new(),
            extra_polls: false,
            stats_spectator: false,
            wide: false,
        }
    }

    pub fn owner_of(&self, handle: usize) -> usize {
        self.peers
            .iter()
            .position(|p| p.locals.contains(&handle))
            .expect("every player handle has an owner")
    }

    /// The input player `p` really has at effective frame `f` with static delays.
    pub fn truth(&self, p: usize, f: i32) -> u8 {
        let d = self.peers[self.owner_of(p)].delay as i32;
        if f < d {
            0
        } else {
            self.program.value(p, f - d)
        }
    }

    pub fn has_disconnects(&self) -> bool {
        self.script
            .iter()
            .any(|s| matches!(s.action, Action::Die | Action::Disconnect { .. }))
    }
}

impl Scenario {
    /// Driver features of this scenario (for the coverage audit of the closed system: which
    /// combinations of configuration, application behaviour and fault kind were driven at all).
    pub fn features(&self, k: Option<usize>, stateful: bool) -> Vec<String> {
        let mut f: Vec<String> = Vec::new();
        let cls = |x: usize, cuts: &[usize]| -> String {
            let mut lo = 0usize;
            for &c in cuts {
                if x < c {
                    return if c - lo == 1 { format!("{lo}") } else { format!("{lo}..{}", c - 1) };
                }
                lo = c;
            }
            format!("{lo}+")
        };
        f.push(format!("peers={}", self.peers.len().min(4)));
        f.push(format!("max-locals={}", self.peers.iter().map(|p| p.locals.len()).max().unwrap_or(0).min(2)));
        f.push(format!("spectators={}", self.specs.len().min(2)));
        let w = self.peers.iter().map(|p| p.window).min().unwrap_or(0);
        f.push(format!("window={}", cls(w, &[1, 2, 3, 9])));
        let d = self.peers.iter().map(|p| p.delay).max().unwrap_or(0);
        f.push(format!("delay={}", cls(d, &[1, 3])));
        f.push(format!("delay>window={}", self.peers.iter().any(|p| p.delay > p.window && p.window > 0)));
        f.push(format!("sparse={}", self.peers.iter().any(|p| p.sparse)));
        let ds = self.peers.iter().map(|p| p.desync).max().unwrap_or(0);
        f.push(format!("desync={}", cls(ds as usize, &[1, 2])));
        f.push(format!("pred={:?}", self.pred));
        f.push(format!("program={:?}", self.program));
        f.push(format!("latency={}", cls(self.latency.max(0) as usize, &[1, 2, 4])));
        f.push(format!("uneven-ticks={}", self.peers.iter().any(|p| p.tick_every != 1)));
        f.push(format!("lockstep-wait={}", self.peers.iter().any(|p| p.use_wait)));
        f.push(format!("undrained={}", self.peers.iter().any(|p| !p.drain) || self.specs.iter().any(|p| !p.drain)));
        f.push(format!("poll-only-peer={}", self.peers.iter().any(|p| p.poll_only)));
        f.push(format!("polls-between-ticks={}", self.extra_polls || self.script.iter().any(|i| i.action == Action::Poll)));
        f.push(format!("no-checksum-game={}", !self.no_checksum.is_empty()));
        f.push(format!("wide-input={}", self.wide));
        f.push(format!("builder-setters-reversed={}", self.peers.iter().any(|p| p.builder_order != 0)));
        f.push(format!("input-style={}", self.peers.iter().map(|p| p.input_style).max().unwrap_or(0)));
        f.push(format!("diverging-game={}", self.diverge.is_some()));
        f.push(format!("handshake-phase={}", self.handshake_phase));
        f.push(format!("fps={}", if self.fps == 60 { "60" } else { "other" }));
        for (name, pred) in [
            ("die", (|a: &Action| matches!(a, Action::Die)) as fn(&Action) -> bool),
            ("disconnect", |a| matches!(a, Action::Disconnect { .. })),
            ("set-delay", |a| matches!(a, Action::SetDelay { .. })),
            ("sleep", |a| matches!(a, Action::Sleep { .. })),
            ("misuse-call", |a| matches!(a, Action::AdvanceWithoutInput | Action::AddInputFor { .. } | Action::NetStats { .. })),
        ] {
            f.push(format!("action-{name}={}", self.script.iter().any(|i| pred(&i.action))));
        }
        f.push(format!("outages={}", if self.outages.is_empty() { "none".to_owned() } else { cls(self.outages.iter().map(|o| o.len.max(0) as usize).max().unwrap_or(0), &[1, 9, 31, 61, 121]) }));
        f.push(format!("scripted-fates={}", !self.scripted.is_empty()));
        f.push(format!("scripted-stalls={}", !self.scripted_stalls.is_empty()));
        f.push(format!("background-faults={}", self.background.loss_every + self.background.delay_every + self.background.stall_every > 0));
        f.push(format!("injected-packets={}", !self.inject.is_empty()));
        f.push(format!("link-latency-overrides={}", !self.link_lat.is_empty()));
        f.push(format!("spectator-pauses={}", self.specs.iter().any(|s| !s.pauses.is_empty() || s.silent_from.is_some())));
        let explored = if stateful { "stateful".to_owned() } else { format!("k={}", k.unwrap_or(0).min(3)) };
        f.push(format!("exploration={explored}"));
        f.push(format!("choice-points={}", match (self.fault.end > self.fault.start, self.fault.tick_alts > 0, !self.fault.link_rounds.is_empty()) {
            (false, _, _) => "none",
            (true, false, false) => "packets",
            (true, true, false) => "packets+ticks",
            (true, _, true) => "links",
        }));
        f.push(format!("long-run={}", cls((self.horizon + self.probe).max(0) as usize, &[70, 140, 400])));
        f
    }
}
