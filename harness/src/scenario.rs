//! Plain-data description of one closed system. A scenario plus a deviation list determines an
//! execution completely.
use crate::net::{FaultSpec, Outage, ScriptedFate};
use crate::types::{Addr, Pred, Program};
use serde::{Deserialize, Serialize};

pub const CK_C01: u32 = 1 << 1;
pub const CK_C02: u32 = 1 << 2;
pub const CK_C03: u32 = 1 << 3;
pub const CK_C04: u32 = 1 << 4;
pub const CK_FINALITY: u32 = 1 << 20;
pub const CK_CORE: u32 = CK_C01 | CK_C02 | CK_C03 | CK_C04 | CK_FINALITY;

#[derive(Clone, Debug, Serialize, Deserialize)]
pub struct PeerSpec {
    pub addr: Addr,
    pub locals: Vec<usize>,
    pub window: usize,
    pub delay: usize,
    pub sparse: bool,
    /// desync detection interval, 0 = off
    pub desync: u32,
    pub notify_ms: u64,
    pub timeout_ms: u64,
    /// the peer ticks in rounds r with r % tick_every == tick_phase
    pub tick_every: i32,
    pub tick_phase: i32,
    /// use advance_frame_with_wait instead of advance_frame
    pub use_wait: bool,
    pub drain: bool,
    /// the peer only polls, never advances
    pub poll_only: bool,
}

impl PeerSpec {
    pub fn new(addr: Addr, locals: Vec<usize>, window: usize, delay: usize, sparse: bool) -> Self {
        Self {
            addr,
            locals,
            window,
            delay,
            sparse,
            desync: 0,
            notify_ms: 500,
            timeout_ms: 2000,
            tick_every: 1,
            tick_phase: 0,
            use_wait: false,
            drain: true,
            poll_only: false,
        }
    }
}

#[derive(Clone, Debug, Serialize, Deserialize)]
pub struct SpecSpec {
    pub addr: Addr,
    pub host: Addr,
    pub max_behind: usize,
    pub catchup: usize,
    pub window: usize,
    pub tick_every: i32,
    /// (start, len) in relative rounds during which the spectator does not tick at all
    pub pauses: Vec<(i32, i32)>,
    pub notify_ms: u64,
    pub timeout_ms: u64,
    pub drain: bool,
    /// never polls or ticks (silent spectator)
    pub silent_from: Option<i32>,
    /// during a pause the spectator still polls (receives and acknowledges) but does not advance
    #[serde(default)]
    pub pause_polls: bool,
}

impl SpecSpec {
    pub fn new(addr: Addr, host: Addr) -> Self {
        Self {
            addr,
            host,
            max_behind: 10,
            catchup: 1,
            window: 8,
            tick_every: 1,
            pauses: Vec::new(),
            notify_ms: 500,
            timeout_ms: 2000,
            drain: true,
            silent_from: None,
            pause_polls: false,
        }
    }
}

#[derive(Clone, Debug, Serialize, Deserialize, PartialEq)]
pub enum Action {
    SetDelay { handle: usize, delay: usize },
    Disconnect { handle: usize },
    /// the node dies: it never steps again and nothing it sent from now on is delivered
    Die,
    /// advance_frame without having added local input
    AdvanceWithoutInput,
    AddInputFor { handle: usize },
    NetStats { handle: usize },
    /// a long sleep before this node's step (virtual microseconds)
    Sleep { us: u64 },
    /// poll_remote_clients before this node's step (an application that polls between ticks)
    Poll,
}

impl ScriptItem {
    /// calls that a valid program would not make (C16 inserts them and expects no effect)
    pub fn action_is_misuse(&self) -> bool {
        matches!(self.action, Action::AdvanceWithoutInput | Action::AddInputFor { .. } | Action::NetStats { .. } | Action::SetDelay { .. } | Action::Disconnect { .. })
    }
}

#[derive(Clone, Debug, Serialize, Deserialize)]
pub struct ScriptItem {
    pub round: i32,
    pub node: usize,
    pub action: Action,
}

#[derive(Clone, Debug, Serialize, Deserialize, Default)]
pub struct Background {
    /// every n-th Input packet (globally counted) is dropped / delayed; 0 = off
    pub loss_every: u64,
    pub delay_every: u64,
    /// every n-th tick (globally counted) is a stall; 0 = off
    pub stall_every: u64,
}

#[derive(Clone, Debug, Serialize, Deserialize)]
pub struct InjectSpec {
    pub round: i32,
    pub to: Addr,
    pub from: Addr,
    pub msg: crate::wire::WMessage,
    /// handed over before (true) or after (false) the authentic packets of that poll
    pub before: bool,
}

#[derive(Clone, Debug, Serialize, Deserialize)]
pub struct Scenario {
    pub name: String,
    pub pred: Pred,
    pub num_players: usize,
    pub peers: Vec<PeerSpec>,
    pub specs: Vec<SpecSpec>,
    pub program: Program,
    pub latency: i32,
    pub fps: usize,
    pub round_us: u64,
    /// rounds of the running phase in which choice points may be offered
    pub horizon: i32,
    /// further fault-free rounds (recovery probe); no choice points, outages must have ended
    pub probe: i32,
    pub fault: FaultSpec,
    pub outages: Vec<Outage>,
    pub scripted: Vec<ScriptedFate>,
    pub script: Vec<ScriptItem>,
    pub background: Background,
    pub rng_seed: u64,
    pub hash_seed: u64,
    pub checks: u32,
    /// faults/script rounds are relative to world creation instead of the start of the run phase
    pub handshake_phase: bool,
    /// maximum number of rounds the handshake may take when it is not under test
    pub max_sync_rounds: i32,
    /// (node, frame): that node's game perturbs its hash from that frame on
    pub diverge: Option<(usize, i32)>,
    pub max_points: u32,
    #[serde(default)]
    pub inject: Vec<InjectSpec>,
    /// per-link latency overrides (from, to, rounds)
    #[serde(default)]
    pub link_lat: Vec<(Addr, Addr, i32)>,
    /// (node, round): that node skips its tick in that round
    #[serde(default)]
    pub scripted_stalls: Vec<(usize, i32)>,
    /// nodes whose game saves its states without a checksum
    #[serde(default)]
    pub no_checksum: Vec<usize>,
    /// every player session polls once more at the end of each round (an application that polls
    /// more often than it ticks); with latency 0 a request and its reply then fall into one
    /// instant of virtual time
    #[serde(default)]
    pub extra_polls: bool,
}

impl Scenario {
    pub fn new(name: &str, num_players: usize, peers: Vec<PeerSpec>) -> Self {
        Self {
            name: name.to_owned(),
            pred: Pred::RepeatLast,
            num_players,
            peers,
            specs: Vec::new(),
            program: Program::Changing,
            latency: 1,
            fps: 60,
            round_us: 16_667,
            horizon: 40,
            probe: 0,
            fault: FaultSpec::default(),
            outages: Vec::new(),
            scripted: Vec::new(),
            script: Vec::new(),
            background: Background::default(),
            rng_seed: 7,
            hash_seed: 1,
            checks: CK_CORE,
            handshake_phase: false,
            max_sync_rounds: 200,
            diverge: None,
            max_points: u32::MAX,
            inject: Vec::new(),
            link_lat: Vec::new(),
            scripted_stalls: Vec::new(),
            no_checksum: Vec::new(),
            extra_polls: false,
        }
    }

    pub fn owner_of(&self, handle: usize) -> usize {
        self.peers
            .iter()
            .position(|p| p.locals.contains(&handle))
            .expect("every player handle has an owner")
    }

    /// The input player `p` really has at effective frame `f` with static delays.
    pub fn truth(&self, p: usize, f: i32) -> u8 {
        let d = self.peers[self.owner_of(p)].delay as i32;
        if f < d {
            0
        } else {
            self.program.value(p, f - d)
        }
    }

    pub fn has_disconnects(&self) -> bool {
        self.script
            .iter()
            .any(|s| matches!(s.action, Action::Die | Action::Disconnect { .. }))
    }
}
