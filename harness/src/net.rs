//! The simulated network: per-packet fates decided by the chooser, scripted outages and drops,
//! canonical delivery order, and a log the oracles can consult.
use crate::chooser::{Chooser, PK_PACKET};
use crate::types::Addr;
use crate::wire::{msg_bytes, to_wire, WBody, WMessage};
use ggrs::{Message, NonBlockingSocket};
use serde::{Deserialize, Serialize};
use std::cell::RefCell;
use std::collections::HashMap;
use std::rc::Rc;

#[derive(Clone, Copy, Debug, PartialEq, Eq, Serialize, Deserialize)]
pub enum Fate {
    Drop,
    Dup,
    Delay(i32),
    /// delivered on time, and a second copy this many rounds later (a network that re-delivers
    /// very old packets)
    DupLate(i32),
}

#[derive(Clone, Debug, Serialize, Deserialize, Default)]
pub struct FaultSpec {
    /// packets sent in rounds [start, end) relative to the phase base are choice points
    pub start: i32,
    pub end: i32,
    pub classes: u16,
    pub fates: Vec<Fate>,
    /// directed links subject to faults; empty = all
    pub links: Vec<(Addr, Addr)>,
    /// number of alternatives offered for each session tick in the window (0 = none,
    /// 1 = stall, 2 = stall | poll-only)
    pub tick_alts: u8,
    /// link groups: at the start of every round of the window one choice per group decides
    /// whether all links of the group are up (0) or down (1) for that round
    #[serde(default)]
    pub link_rounds: Vec<Vec<(Addr, Addr)>>,
}

#[derive(Clone, Debug, Serialize, Deserialize)]
pub struct Outage {
    pub from: Addr,
    pub to: Addr,
    pub start: i32,
    pub len: i32,
    pub classes: u16,
}

#[derive(Clone, Debug, Serialize, Deserialize)]
pub struct ScriptedFate {
    pub from: Addr,
    pub to: Addr,
    /// relative send round
    pub round: i32,
    pub classes: u16,
    pub fate: Fate,
}

thread_local! {
    /// rounds by which deliveries run ahead while a session spins in a lockstep wait
    pub static WAIT_EARLY: std::cell::Cell<i32> = const { std::cell::Cell::new(0) };
    pub static WAIT_YIELDS_THIS_CALL: std::cell::Cell<u32> = const { std::cell::Cell::new(0) };
}

pub struct Pkt {
    pub from: Addr,
    pub to: Addr,
    pub msg: Message,
    pub kind: u8,
    pub due: i32,
    pub seq: u64,
    /// the packet was held back by a delay fate: it arrives after the packets of the same link
    /// that were sent later and are due in the same round (that is what reordering means)
    pub late: bool,
}

#[derive(Default, Clone, Debug)]
pub struct NetStats {
    pub sent: [u64; 8],
    pub delivered: [u64; 8],
    pub dropped: u64,
    pub duplicated: u64,
    pub delayed: u64,
    pub outage_dropped: u64,
    pub input_packets_multi: u64,
}

pub struct SimNet {
    pub round: i32,
    pub base: i32,
    pub latency: i32,
    pub inflight: Vec<Pkt>,
    pub seq: u64,
    pub chooser: Chooser,
    pub fault: FaultSpec,
    pub outages: Vec<Outage>,
    pub scripted: Vec<ScriptedFate>,
    pub dead: Vec<Addr>,
    pub stats: NetStats,
    /// (to, from) -> virtual time of the poll that last handed a packet of `from` to `to`
    pub last_recv_us: HashMap<(Addr, Addr), u64>,
    /// sniffed packets, if enabled: (send round, from, to, wire)
    pub sniff: Option<Vec<(i32, Addr, Addr, WMessage)>>,
    /// (receiver, sender) pairs whose next receive gets these forged messages first/last
    pub inject: Vec<(Addr, Addr, Message, bool)>,
    /// per link maximum latency override (from, to) -> rounds
    pub link_latency: HashMap<(Addr, Addr), i32>,
    /// deterministic background loss/delay of Input packets (every n-th), active while rel < bg_until
    pub bg_loss_every: u64,
    pub bg_delay_every: u64,
    pub bg_until: i32,
    bg_count: HashMap<(Addr, Addr), u64>,
    /// when on: (to, from) -> newest input frame contained in any Input packet handed to `to`
    pub track_frames: bool,
    pub delivered_frames: HashMap<(Addr, Addr), i32>,
    /// (to, from, virtual time of the poll) for every poll that handed over >= 1 packet of `from`
    pub recv_log: Vec<(Addr, Addr, u64)>,
    /// handshake bookkeeping: nonces issued by (requester, replier); matched round trips
    pub issued: HashMap<(Addr, Addr), Vec<u32>>,
    /// (requester, replier, matched count so far, virtual time of the poll)
    pub matched_log: Vec<(Addr, Addr, u32, u64)>,
}

impl SimNet {
    pub fn new(latency: i32, chooser: Chooser) -> Self {
        Self {
            round: 0,
            base: 0,
            latency,
            inflight: Vec::new(),
            seq: 0,
            chooser,
            fault: FaultSpec::default(),
            outages: Vec::new(),
            scripted: Vec::new(),
            dead: Vec::new(),
            stats: NetStats::default(),
            last_recv_us: HashMap::new(),
            sniff: None,
            inject: Vec::new(),
            link_latency: HashMap::new(),
            bg_loss_every: 0,
            bg_delay_every: 0,
            bg_until: 0,
            bg_count: HashMap::new(),
            track_frames: false,
            delivered_frames: HashMap::new(),
            recv_log: Vec::new(),
            issued: HashMap::new(),
            matched_log: Vec::new(),
        }
    }

    pub fn rel(&self) -> i32 {
        self.round - self.base
    }

    fn send(&mut self, from: Addr, to: Addr, msg: &Message) {
        let bytes = msg_bytes(msg);
        // header: u16 magic, then the u32 variant index of the body
        let kind = bytes[2];
        self.stats.sent[kind as usize] += 1;
        if let Some(s) = self.sniff.as_mut() {
            s.push((self.round - self.base, from, to, to_wire(msg)));
        }
        if kind == crate::wire::K_SYNC_REQ {
            if let WBody::SyncRequest { random_request } = to_wire(msg).body {
                self.issued.entry((from, to)).or_default().push(random_request);
            }
        }
        if self.dead.contains(&to) || self.dead.contains(&from) {
            return;
        }
        let rel = self.rel();
        let class = 1u16 << kind;
        for o in &self.outages {
            if o.from == from && o.to == to && o.classes & class != 0 && rel >= o.start && rel < o.start + o.len {
                self.stats.outage_dropped += 1;
                return;
            }
        }
        // per-link overrides ramp up from the base latency by one round every second round of
        // the run phase, so that a slow link does not begin with a silence of its full length
        let lat = match self.link_latency.get(&(from, to)) {
            Some(&target) if rel >= 0 => target.min(self.latency + rel / 2),
            Some(_) => self.latency,
            None => self.latency,
        };
        let mut fate: Option<Fate> = None;
        for s in &self.scripted {
            if s.from == from && s.to == to && s.round == rel && s.classes & class != 0 {
                fate = Some(s.fate);
            }
        }
        if fate.is_none() {
            let f = &self.fault;
            if rel >= f.start
                && rel < f.end
                && f.classes & class != 0
                && !f.fates.is_empty()
                && (f.links.is_empty() || f.links.contains(&(from, to)))
            {
                let tag = u32::from(kind) | (u32::from(from) << 8) | (u32::from(to) << 16);
                let c = self.chooser.choose(PK_PACKET, 1 + f.fates.len(), rel, tag);
                if c > 0 {
                    fate = Some(self.fault.fates[c - 1]);
                }
            }
        }
        if fate.is_none() && kind == crate::wire::K_INPUT && rel >= 0 && rel < self.bg_until {
            // counted per directed link, so that attaching a spectator (or a further peer) does
            // not shift which packets of the other links are hit
            let c = self.bg_count.entry((from, to)).or_insert(u64::from(from) * 3 + u64::from(to));
            *c += 1;
            let c = *c;
            if self.bg_loss_every > 0 && c % self.bg_loss_every == 0 {
                fate = Some(Fate::Drop);
            } else if self.bg_delay_every > 0 && c % self.bg_delay_every == 0 {
                fate = Some(Fate::Delay(2));
            }
        }
        let mut due = self.round + lat;
        let mut copies = 1;
        let mut late = false;
        match fate {
            None => {}
            Some(Fate::Drop) => {
                self.stats.dropped += 1;
                return;
            }
            Some(Fate::Dup) => {
                self.stats.duplicated += 1;
                copies = 2;
            }
            Some(Fate::Delay(n)) => {
                self.stats.delayed += 1;
                due += n;
                late = true;
            }
            Some(Fate::DupLate(_)) => {}
        }
        let mut late_copy: Option<i32> = None;
        if let Some(Fate::DupLate(n)) = fate {
            self.stats.duplicated += 1;
            late_copy = Some(n);
        }
        for _ in 0..copies {
            self.seq += 1;
            self.inflight.push(Pkt {
                from,
                to,
                msg: msg.clone(),
                kind,
                due,
                seq: self.seq,
                late,
            });
        }
        if let Some(n) = late_copy {
            self.seq += 1;
            self.inflight.push(Pkt { from, to, msg: msg.clone(), kind, due: due + n, seq: self.seq, late: true });
        }
    }

    fn recv(&mut self, to: Addr) -> Vec<(Addr, Message)> {
        // inside a lockstep wait time passes: from the middle of the wait on, packets that are due
        // in the next round arrive (the wait lasts about one frame period = one round)
        let round = self.round + WAIT_EARLY.with(std::cell::Cell::get);
        let mut out: Vec<Pkt> = Vec::new();
        let mut i = 0;
        while i < self.inflight.len() {
            if self.inflight[i].to == to && self.inflight[i].due <= round {
                out.push(self.inflight.swap_remove(i));
            } else {
                i += 1;
            }
        }
        out.sort_by_key(|p| (p.from, p.late && p.due == round, p.due, p.seq));
        let now = ggrs::verif_hooks::now_us();
        let mut res: Vec<(Addr, Message)> = Vec::new();
        // forged packets placed before the authentic ones
        let mut k = 0;
        while k < self.inject.len() {
            if self.inject[k].0 == to && self.inject[k].3 {
                let (_, from, m, _) = self.inject.remove(k);
                res.push((from, m));
            } else {
                k += 1;
            }
        }
        for p in out {
            self.stats.delivered[p.kind as usize] += 1;
            self.last_recv_us.insert((to, p.from), now);
            if p.kind == crate::wire::K_SYNC_REP {
                if let WBody::SyncReply { random_reply } = to_wire(&p.msg).body {
                    let list = self.issued.entry((to, p.from)).or_default();
                    if let Some(pos) = list.iter().position(|n| *n == random_reply) {
                        list.remove(pos);
                        let c = self.matched_log.iter().filter(|m| m.0 == to && m.1 == p.from).count() as u32 + 1;
                        self.matched_log.push((to, p.from, c, now));
                    }
                }
            }
            if self.recv_log.last() != Some(&(to, p.from, now)) {
                self.recv_log.push((to, p.from, now));
            }
            if self.track_frames && p.kind == crate::wire::K_INPUT {
                if let WBody::Input(inp) = to_wire(&p.msg).body {
                    // the number of encoded inputs does not depend on the delta reference
                    if let Ok(v) = ggrs::verif_hooks::codec::decode(&[], &inp.bytes) {
                        let newest = inp.start_frame + v.len() as i32 - 1;
                        let e = self.delivered_frames.entry((to, p.from)).or_insert(-1);
                        if newest > *e {
                            *e = newest;
                        }
                    }
                }
            }
            res.push((p.from, p.msg));
        }
        let mut k = 0;
        while k < self.inject.len() {
            if self.inject[k].0 == to && !self.inject[k].3 {
                let (_, from, m, _) = self.inject.remove(k);
                res.push((from, m));
            } else {
                k += 1;
            }
        }
        res
    }

    /// Canonical digest of everything in flight (due rounds relative to now).
    pub fn digest(&self, out: &mut Vec<u8>) {
        let mut items: Vec<(i32, Addr, Addr, u64, Vec<u8>)> = self
            .inflight
            .iter()
            .map(|p| (p.due - self.round, p.from, p.to, p.seq, msg_bytes(&p.msg)))
            .collect();
        items.sort();
        out.extend_from_slice(&(items.len() as u32).to_le_bytes());
        for (due, from, to, _seq, bytes) in items {
            out.extend_from_slice(&due.to_le_bytes());
            out.push(from);
            out.push(to);
            out.extend_from_slice(&(bytes.len() as u32).to_le_bytes());
            out.extend_from_slice(&bytes);
        }
    }

    pub fn inflight_inputs_from(&self, from: Addr) -> usize {
        self.inflight
            .iter()
            .filter(|p| p.from == from && matches!(to_wire(&p.msg).body, WBody::Input(_)))
            .count()
    }
}

pub struct SimSocket {
    pub addr: Addr,
    pub net: Rc<RefCell<SimNet>>,
}

impl NonBlockingSocket<Addr> for SimSocket {
    fn send_to(&mut self, msg: &Message, addr: &Addr) {
        self.net.borrow_mut().send(self.addr, *addr, msg);
    }
    fn receive_all_messages(&mut self) -> Vec<(Addr, Message)> {
        self.net.borrow_mut().recv(self.addr)
    }
}
