//! `ggrs-mc replay <file>`: re-executes one recorded case without the explorer and prints it.
use crate::chooser::Devs;
use crate::scenario::Scenario;
use crate::world::{run_scn, RunOpt};

pub fn replay(path: &str) -> i32 {
    let Ok(text) = std::fs::read_to_string(path) else {
        eprintln!("cannot read {path}");
        return 2;
    };
    let v: serde_json::Value = match serde_json::from_str(&text) {
        Ok(v) => v,
        Err(e) => {
            eprintln!("{path}: {e}");
            return 2;
        }
    };
    let verbose = std::env::var("REPLAY_VERBOSE").is_ok();
    match v["engine"].as_str().unwrap_or("") {
        "world" => {
            let scn: Scenario = serde_json::from_value(v["scenario"].clone()).expect("scenario");
            let devs: Devs = serde_json::from_value(v["devs"].clone()).expect("devs");
            let prop = v["property"].as_str().unwrap_or("");
            println!("scenario: {}", scn.name);
            println!("deviations: {devs:?}");
            let opt = RunOpt { sniff: verbose, ..Default::default() };
            let res = run_scn(&scn, &devs, &opt);
            let base = run_scn(&scn, &Vec::new(), &RunOpt::default());
            for (i, n) in res.nodes.iter().enumerate() {
                println!("--- node {i} addr {} spectator={} crashed={:?} died_at={:?} final conn={:?}", n.addr, n.is_spec, n.crashed, n.died_at, n.conn);
                for c in &n.calls {
                    let evs: Vec<String> = n.events.iter().filter(|e| e.0 == c.round).map(|e| format!("{:?}", e.2)).collect();
                    println!(
                        "  round {:3} t={:8} res={:2} adv={} save={} load={} cur={:3} conf={:3} ahead={:2} behind={:2} stats={:?} {}",
                        c.round, c.t_us, c.res, c.n_adv, c.n_save, c.n_load, c.cur, c.conf, c.ahead, c.behind, c.stats,
                        evs.join(" ")
                    );
                }
                let call_rounds: std::collections::HashSet<i32> = n.calls.iter().map(|c| c.round).collect();
                let loose: Vec<String> = n.events.iter().filter(|e| !call_rounds.contains(&e.0)).map(|e| format!("{}:{:?}", e.0, e.2)).collect();
                if !loose.is_empty() {
                    println!("  events drained outside the calls above ({}): {}", loose.len(), loose.join(" "));
                }
                for a in &n.actions {
                    println!("  action round {} {:?} -> res {} {} conn_after={:?} delivered={:?}", a.round, a.action, a.res, a.detail, a.conn_after, a.delivered_at_call);
                }
                if verbose {
                    for (f, fr) in n.sims.iter().enumerate() {
                        println!("  frame {f:3}: vals {:?} stats {:?} sims {}", fr.vals, fr.stats, fr.count);
                    }
                }
            }
            if verbose {
                for (r, from, to, m) in &res.sniff {
                    println!("  pkt round {r} {from}->{to} {m:?}");
                }
            }
            println!("delivered_frames: {:?}", res.delivered_frames);
            let mut viol = res.violations.clone();
            viol.extend(crate::props::judge_for(prop)(&scn, &res, Some(&base)));
            for x in &viol {
                println!("violation: {} {} node {} round {}: {}", x.prop, x.kind, x.node, x.round, x.detail);
            }
            let hit = viol.iter().any(|x| Some(x.kind.as_str()) == v["kind"].as_str());
            println!("reproduces: {hit}");
            i32::from(!hit)
        }
        "synctest" => {
            let c: crate::props::synctest::StCase = serde_json::from_value(v["case"].clone()).expect("case");
            let r = crate::props::synctest::run_case(&c);
            println!("{c:?}\n{r:?}");
            0
        }
        "codec-decode" => {
            let bytes: Vec<u8> = serde_json::from_value(v["bytes"].clone()).unwrap_or_default();
            let reference: Vec<u8> = serde_json::from_value(v["reference"].clone()).unwrap_or_default();
            let r = std::panic::catch_unwind(|| ggrs::verif_hooks::codec::decode(&reference, &bytes));
            println!("decode({reference:02x?}, {bytes:02x?}) = {r:?}");
            0
        }
        "codec-roundtrip" => {
            let inputs: Vec<Vec<u8>> = serde_json::from_value(v["inputs"].clone()).unwrap_or_default();
            let reference: Vec<u8> = serde_json::from_value(v["reference"].clone()).unwrap_or_default();
            let enc = ggrs::verif_hooks::codec::encode(&reference, inputs.iter());
            let dec = ggrs::verif_hooks::codec::decode(&reference, &enc);
            println!("encoded {enc:02x?}\ndecoded {dec:?}\nequal: {}", dec.as_ref().map(|d| *d == inputs).unwrap_or(false));
            0
        }
        "codec-roundtrip-after" => {
            let prior: Vec<u8> = serde_json::from_value(v["prior"].clone()).unwrap_or_default();
            let inputs: Vec<Vec<u8>> = serde_json::from_value(v["inputs"].clone()).unwrap_or_default();
            let reference: Vec<u8> = serde_json::from_value(v["reference"].clone()).unwrap_or_default();
            let first = ggrs::verif_hooks::codec::decode(&[], &prior);
            println!("prior call decode([], {prior:02x?}) = {:?}", first.map(|f| f.len()));
            let enc = ggrs::verif_hooks::codec::encode(&reference, inputs.iter());
            let dec = ggrs::verif_hooks::codec::decode(&reference, &enc);
            let equal = dec.as_ref().map(|d| *d == inputs).unwrap_or(false);
            println!("encoded {enc:02x?}\ndecoded {dec:?}\nequal: {equal}\nreproduces: {}", !equal);
            0
        }
        "hashorder" => {
            let scn: Scenario = serde_json::from_value(v["scenario"].clone()).expect("scenario");
            let mut reference = scn.clone();
            reference.hash_seed = v["reference_hash_seed"].as_u64().unwrap_or(1);
            reference.rng_seed = v["reference_rng_seed"].as_u64().unwrap_or(7);
            let a = run_scn(&reference, &Vec::new(), &RunOpt::default());
            let b = run_scn(&scn, &Vec::new(), &RunOpt::default());
            println!("scenario: {}", scn.name);
            let mut differs = false;
            for (i, (x, y)) in a.nodes.iter().zip(b.nodes.iter()).enumerate() {
                println!("--- node {i}: iteration orders reference {:?} / this run {:?}", x.iter_orders, y.iter_orders);
                for (cx, cy) in x.calls.iter().zip(y.calls.iter()) {
                    if (cx.res, cx.n_adv, cx.n_save, cx.n_load, cx.cur, cx.conf) != (cy.res, cy.n_adv, cy.n_save, cy.n_load, cy.cur, cy.conf) {
                        println!("  round {}: reference res={} adv={} save={} load={} cur={} conf={} / this run res={} adv={} save={} load={} cur={} conf={}", cx.round, cx.res, cx.n_adv, cx.n_save, cx.n_load, cx.cur, cx.conf, cy.res, cy.n_adv, cy.n_save, cy.n_load, cy.cur, cy.conf);
                        differs = true;
                        break;
                    }
                }
                for (f, (fx, fy)) in x.sims.iter().zip(y.sims.iter()).enumerate() {
                    if fx.vals != fy.vals || fx.stats != fy.stats || fx.hash_after != fy.hash_after {
                        println!("  frame {f}: reference {:?}/{:?} this run {:?}/{:?}", fx.vals, fx.stats, fy.vals, fy.stats);
                        differs = true;
                        break;
                    }
                }
                let ex: Vec<String> = x.events.iter().map(|e| format!("{}:{:?}", e.0, e.2)).collect();
                let ey: Vec<String> = y.events.iter().map(|e| format!("{}:{:?}", e.0, e.2)).collect();
                if ex != ey {
                    println!("  events: reference {ex:?}\n          this run {ey:?}");
                    differs = true;
                }
            }
            println!("reproduces: {differs}");
            i32::from(!differs)
        }
        "builder" => {
            let seq: Vec<crate::props::builder::Call> = serde_json::from_value(v["sequence"].clone()).unwrap_or_default();
            let start = v["start"].as_u64().unwrap_or(0) as u8;
            let r = crate::props::builder::run_sequence(&seq, start);
            println!("{seq:?} then start #{start}: {r:?}");
            i32::from(r.is_ok())
        }
        other => {
            eprintln!("unknown replay engine {other:?}: {}", v);
            2
        }
    }
}
