//! Evidence files, replay artefacts, known findings and exit codes.
use crate::explore::{ExploreOut, Found};
use serde_json::{json, Map, Value};
use std::collections::BTreeMap;
use std::time::Instant;

#[derive(Clone, Debug)]
pub struct Finding {
    pub prop: String,
    pub kind: String,
    pub detail: String,
    /// scenario class: the part of the scenario name before the first ':'
    pub class: String,
    pub replay: Value,
}

impl Finding {
    pub fn from_found(f: &Found) -> Self {
        Self {
            prop: f.violation.prop.to_owned(),
            kind: f.violation.kind.clone(),
            detail: f.violation.detail.clone(),
            class: f.scenario.name.split(':').next().unwrap_or("").to_owned(),
            replay: json!({
                "engine": "world",
                "scenario": f.scenario,
                "devs": f.devs,
                "violation": f.violation,
            }),
        }
    }
}

pub struct Report {
    pub prop: String,
    pub tier: String,
    pub seed: i64,
    pub level: &'static str,
    pub t0: Instant,
    pub coverage: Map<String, Value>,
    pub assumptions: Vec<String>,
    pub findings: Vec<Finding>,
    pub machinery: Vec<String>,
    pub evaluations: u64,
    pub states: u64,
    pub transitions: u64,
    pub fingerprints: std::collections::HashSet<u64>,
    pub nontrivial: std::collections::HashSet<u64>,
    pub samples: Vec<Value>,
    pub parts: Vec<Value>,
    pub exhaustive: bool,
    pub rule: String,
}

pub fn tier() -> String {
    let mut t = std::env::var("VERIF_TIER").unwrap_or_else(|_| "quick".to_owned());
    let args: Vec<String> = std::env::args().collect();
    for i in 0..args.len() {
        if args[i] == "--tier" && i + 1 < args.len() {
            t = args[i + 1].clone();
        }
    }
    if t != "thorough" {
        t = "quick".to_owned();
    }
    t
}

pub fn seed() -> i64 {
    std::env::var("VERIF_SEED").ok().and_then(|s| s.parse().ok()).unwrap_or(0)
}

impl Report {
    pub fn new(prop: &str, level: &'static str) -> Self {
        Self {
            prop: prop.to_owned(),
            tier: tier(),
            seed: seed(),
            level,
            t0: Instant::now(),
            coverage: Map::new(),
            assumptions: Vec::new(),
            findings: Vec::new(),
            machinery: Vec::new(),
            evaluations: 0,
            states: 0,
            transitions: 0,
            fingerprints: Default::default(),
            nontrivial: Default::default(),
            samples: Vec::new(),
            parts: Vec::new(),
            exhaustive: true,
            rule: String::new(),
        }
    }

    pub fn thorough(&self) -> bool {
        self.tier == "thorough"
    }

    /// Folds one exploration into the report. `props` lists the violation tags this check owns.
    pub fn absorb(&mut self, part: &str, out: ExploreOut, props: &[&str], bounds: Value) {
        self.evaluations += out.executions;
        self.states += out.states;
        self.transitions += out.transitions;
        self.fingerprints.extend(out.fingerprints.iter().copied());
        self.nontrivial.extend(out.nontrivial.iter().copied());
        for s in out.samples.iter().take(3) {
            if self.samples.len() < 12 {
                self.samples.push(json!({"part": part, "case": s}));
            }
        }
        if out.capped.is_some() {
            self.exhaustive = false;
        }
        let mut by_k: BTreeMap<usize, u64> = BTreeMap::new();
        for (k, v) in &out.by_k {
            by_k.insert(*k, *v);
        }
        let mut other: BTreeMap<String, u64> = BTreeMap::new();
        for f in &out.found {
            if props.contains(&f.violation.prop) {
                self.findings.push(Finding::from_found(f));
            } else {
                *other.entry(format!("{}:{}", f.violation.prop, f.violation.kind)).or_insert(0) += 1;
            }
        }
        self.machinery.extend(out.machinery.iter().take(5).cloned());
        let mut by_key: BTreeMap<String, u64> = BTreeMap::new();
        for ((p, k, c), n) in &out.found_per_key {
            by_key.insert(format!("{p}:{k}@{c}"), *n);
        }
        self.parts.push(json!({
            "part": part,
            "violations_found_by_property_kind_class_before_known_finding_matching": by_key,
            "bounds": bounds,
            "scenarios": out.scenarios,
            "executions": out.executions,
            "executions_by_deviation_count": by_k,
            "distinct_trace_fingerprints": out.fingerprints.len(),
            "distinct_nontrivial": out.nontrivial.len(),
            "max_choice_points_in_one_execution": out.counters.max_points,
            "states": out.states,
            "transitions_rounds_executed": out.transitions,
            "capped": out.capped,
            "determinism_reruns": out.determinism_reruns,
            "counters": out.counters,
            "violations_of_other_properties_seen_not_judged_here": other,
            "wall_s": out.wall_s,
        }));
    }

    pub fn add_finding(&mut self, f: Finding) {
        self.findings.push(f);
    }

    pub fn finish(mut self) -> i32 {
        let verif = std::env::var("VERIF_DIR").unwrap_or_else(|_| "/verif".to_owned());
        let known: Value = std::fs::read_to_string(format!("{verif}/known_findings.json"))
            .ok()
            .and_then(|s| serde_json::from_str(&s).ok())
            .unwrap_or_else(|| json!({"findings": []}));
        let known_list: Vec<Value> = known["findings"].as_array().cloned().unwrap_or_default();
        let mut known_hit: BTreeMap<String, (String, u64)> = BTreeMap::new();
        let mut fresh: Vec<Finding> = Vec::new();
        if std::env::var("VERIF_DEBUG_ALL").is_ok() {
            for f in &self.findings {
                eprintln!("FINDING {} {} {} | {}", f.kind, f.class, f.replay["scenario"]["name"].as_str().unwrap_or(""), f.detail);
            }
        }
        for f in self.findings.drain(..) {
            let m = known_list.iter().find(|k| {
                k["property"].as_str() == Some(&f.prop)
                    && k["kind"].as_str().map(|x| x == f.kind).unwrap_or(true)
                    && k["class"].as_str().map(|x| f.class.starts_with(x)).unwrap_or(true)
                    && k["detail_contains"].as_str().map(|x| f.detail.contains(x)).unwrap_or(true)
                    && k["detail_requires_all"].as_array().map(|a| a.iter().all(|x| x.as_str().map(|x| f.detail.contains(x)).unwrap_or(true))).unwrap_or(true)
                    && k["detail_excludes"].as_array().map(|a| a.iter().all(|x| x.as_str().map(|x| !f.detail.contains(x)).unwrap_or(true))).unwrap_or(true)
            });
            match m {
                Some(k) => {
                    let id = k["id"].as_str().unwrap_or("?").to_owned();
                    let e = known_hit.entry(id).or_insert((k["what"].as_str().unwrap_or("").to_owned(), 0));
                    e.1 += 1;
                }
                None => fresh.push(f),
            }
        }
        for (id, (what, n)) in &known_hit {
            println!("KNOWN-FINDING: property={} {} [{}; {} occurrence(s) in this run]", self.prop, what, id, n);
        }
        // distinct fresh violations by (kind, class)
        let mut seen: BTreeMap<(String, String), u64> = BTreeMap::new();
        let mut n_viol = 0;
        let _ = std::fs::create_dir_all(format!("{verif}/replays"));
        for f in &fresh {
            let key = (f.kind.clone(), f.class.clone());
            let c = seen.entry(key).or_insert(0);
            *c += 1;
            if *c > 1 {
                continue;
            }
            n_viol += 1;
            let mut h = 0xcbf2_9ce4_8422_2325u64;
            crate::types::fnv(&mut h, f.detail.as_bytes());
            crate::types::fnv(&mut h, f.replay.to_string().as_bytes());
            let path = format!("{verif}/replays/{}-{}-{:08x}.json", self.prop, f.kind, h as u32);
            let mut rep = f.replay.clone();
            if let Some(o) = rep.as_object_mut() {
                o.insert("property".to_owned(), json!(self.prop));
                o.insert("kind".to_owned(), json!(f.kind));
                o.insert("detail".to_owned(), json!(f.detail));
            }
            let _ = std::fs::write(&path, serde_json::to_string_pretty(&rep).unwrap());
            println!("VIOLATION property={} replay={}", self.prop, path);
            println!("  kind={} class={} detail={}", f.kind, f.class, f.detail);
        }
        for m in self.machinery.iter().take(10) {
            println!("MACHINERY-ERROR: {m}");
        }
        let wall = self.t0.elapsed().as_secs_f64();
        let mut cov = std::mem::take(&mut self.coverage);
        cov.insert("evaluations".into(), json!(self.evaluations));
        cov.insert("distinct_nontrivial".into(), json!(self.nontrivial.len()));
        cov.insert("distinct_trace_fingerprints".into(), json!(self.fingerprints.len()));
        cov.insert("rule".into(), json!(self.rule));
        cov.insert("samples".into(), json!(self.samples));
        cov.insert("states".into(), json!(self.states.max(self.fingerprints.len() as u64)));
        cov.insert("transitions".into(), json!(self.transitions));
        cov.insert("traces_validated_against_impl".into(), json!(self.evaluations));
        cov.insert("exhaustive".into(), json!(self.exhaustive));
        cov.insert("parts".into(), json!(self.parts));
        cov.insert(
            "known_findings_hit".into(),
            json!(known_hit.iter().map(|(k, v)| json!({"id": k, "occurrences": v.1})).collect::<Vec<_>>()),
        );
        cov.insert(
            "fresh_violation_classes".into(),
            json!(seen.iter().map(|(k, v)| json!({"kind": k.0, "class": k.1, "count": v})).collect::<Vec<_>>()),
        );
        // coverage audit of the driver (scenario features, singly and in pairs)
        if let Some(m) = crate::explore::AUDIT.lock().unwrap().take() {
            let mut values: BTreeMap<String, u64> = BTreeMap::new();
            let mut pairs: std::collections::BTreeSet<(String, String)> = std::collections::BTreeSet::new();
            for ((a, b), n) in &m {
                if b.is_empty() {
                    values.insert(a.clone(), *n);
                } else {
                    pairs.insert((a.clone(), b.clone()));
                }
            }
            let feat = |v: &str| v.split('=').next().unwrap_or("").to_owned();
            let vals: Vec<&String> = values.keys().collect();
            let mut possible = 0u64;
            let mut missing: Vec<String> = Vec::new();
            for i in 0..vals.len() {
                for j in i + 1..vals.len() {
                    if feat(vals[i]) == feat(vals[j]) {
                        continue;
                    }
                    possible += 1;
                    if !pairs.contains(&(vals[i].clone(), vals[j].clone())) && !pairs.contains(&(vals[j].clone(), vals[i].clone())) {
                        missing.push(format!("{} & {}", vals[i], vals[j]));
                    }
                }
            }
            cov.insert("driver_feature_audit".into(), json!({
                "what": "every scenario handed to the explorer is described by ~35 features (topology, window/delay classes, saving mode, desync detection, application behaviour, scripted actions, fault kinds, exploration mode); counted are the scenarios per feature value and the pairs of values of different features that occurred together in at least one scenario",
                "feature_values_seen": values,
                "value_pairs_possible": possible,
                "value_pairs_driven": possible - missing.len() as u64,
            }));
            if std::env::var("VERIF_AUDIT").is_ok() {
                let _ = std::fs::create_dir_all(format!("{verif}/audit"));
                let _ = std::fs::write(format!("{verif}/audit/{}.json", self.prop), serde_json::to_string_pretty(&json!({"values": values, "missing_pairs": missing})).unwrap());
            }
        }
        let ev = json!({
            "property_id": self.prop,
            "tier": self.tier,
            "seed": self.seed,
            "level": self.level,
            "coverage": cov,
            "assumptions": self.assumptions,
            "wall_s": wall,
            "violations": n_viol,
            "machinery_errors": self.machinery.len(),
        });
        let _ = std::fs::create_dir_all(format!("{verif}/evidence"));
        let path = format!("{verif}/evidence/{}.json", self.prop);
        std::fs::write(&path, serde_json::to_string_pretty(&ev).unwrap()).expect("write evidence");
        println!(
            "{} tier={} evaluations={} distinct_nontrivial={} states={} violations={} known={} wall={:.1}s exhaustive={}",
            self.prop,
            self.tier,
            self.evaluations,
            self.nontrivial.len(),
            self.states,
            n_viol,
            known_hit.len(),
            wall,
            self.exhaustive
        );
        if !self.machinery.is_empty() {
            return 2;
        }
        if n_viol > 0 {
            return 1;
        }
        0
    }
}
