//! Reference model of an endpoint's interruption/disconnect timers after it became Running:
//! a boring replay of "last packet time", the notify delay and the timeout over the polls the
//! session actually made and the packets the simulated network actually handed over.
use crate::types::Addr;
use crate::world::{Ev, ExecResult, R_NO_TICK, R_STALLED};

#[derive(Clone, Copy, Debug, PartialEq, Eq)]
pub enum Life {
    Interrupted,
    Resumed,
    Disconnected,
}

/// Expected (round, event) list for `node` about `addr` during the run phase.
/// `stop_round`: the endpoint stops reporting from this round on (explicit disconnect).
pub fn expected(res: &ExecResult, node: usize, addr: Addr, notify_ms: u64, timeout_ms: u64, stop_round: Option<i32>) -> Vec<(i32, Life)> {
    let nt = &res.nodes[node];
    let me = nt.addr;
    let notify = notify_ms * 1000;
    let timeout = timeout_ms * 1000;
    let recvs: Vec<u64> = res.recv_log.iter().filter(|r| r.0 == me && r.1 == addr).map(|r| r.2).collect();
    let mut last_recv = recvs.iter().copied().filter(|t| *t <= res.base_us).max().unwrap_or(res.base_us);
    let mut ri = recvs.iter().position(|t| *t > res.base_us).unwrap_or(recvs.len());
    let mut notified = false;
    let mut out = Vec::new();
    for c in &nt.calls {
        if c.res == R_STALLED || c.res == R_NO_TICK {
            continue;
        }
        if let Some(s) = stop_round {
            if c.round >= s {
                break;
            }
        }
        let now = c.t_us;
        // packets handed over in this poll (polls inside a lockstep wait carry later stamps
        // than the call's start: everything up to the next call belongs to this call)
        let mut got = false;
        while ri < recvs.len() && recvs[ri] <= now {
            last_recv = recvs[ri];
            ri += 1;
            got = true;
        }
        if got && notified {
            notified = false;
            out.push((c.round, Life::Resumed));
        }
        if !notified && last_recv + notify < now {
            notified = true;
            out.push((c.round, Life::Interrupted));
        }
        if last_recv + timeout < now {
            out.push((c.round, Life::Disconnected));
            break;
        }
    }
    out
}

pub fn actual(res: &ExecResult, node: usize, addr: Addr) -> Vec<(i32, Life)> {
    res.nodes[node]
        .events
        .iter()
        .filter(|e| e.0 >= 0 && e.2.addr() == Some(addr))
        .filter_map(|e| match e.2 {
            Ev::Interrupted { .. } => Some((e.0, Life::Interrupted)),
            Ev::Resumed { .. } => Some((e.0, Life::Resumed)),
            Ev::Disconnected { .. } => Some((e.0, Life::Disconnected)),
            _ => None,
        })
        .collect()
}
